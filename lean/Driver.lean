import Lean.Data.Json
import EoNVerif
open Lean

/-! JSON-lines driver: one request per line in, one canonical response line out. -/

namespace Drv

def parseRat (s : String) : Except String Rat :=
  match s.splitOn "/" with
  | [n] => match n.toInt? with
    | some i => .ok (i : Rat)
    | none => .error s!"bad rat {s}"
  | [n, d] => match n.toInt?, d.toNat? with
    | some a, some b => .ok ((a : Rat) / (b : Rat))
    | _, _ => .error s!"bad rat {s}"
  | _ => .error s!"bad rat {s}"

def ratStr (r : Rat) : String := if r.den = 1 then toString r.num else s!"{r.num}/{r.den}"
def jRat (r : Rat) : Json := Json.str (ratStr r)
def jERat (r : ERat) : Json := match r with | some x => jRat x | none => Json.str "inf"
def jNat (n : Nat) : Json := Json.num (JsonNumber.fromNat n)
def jInt (n : Int) : Json := Json.num (JsonNumber.fromInt n)
def jArr {α : Type} (f : α → Json) (l : List α) : Json := Json.arr (l.map f).toArray

def getRat (j : Json) : Except String Rat :=
  match j with
  | .str s => parseRat s
  | .num n => if n.exponent = 0 then .ok (n.mantissa : Rat) else .error "non-integer json number"
  | _ => .error "rat expected"
def getERat (j : Json) : Except String ERat :=
  match j with
  | .str "inf" => .ok none
  | _ => (getRat j).map some
def getNat (j : Json) : Except String Nat := j.getNat?
def getArr (j : Json) : Except String (List Json) := j.getArr?.map (·.toList)
def getList {α : Type} (f : Json → Except String α) (j : Json) : Except String (List α) := do
  (← getArr j).mapM f
def fld (j : Json) (k : String) : Except String Json := j.getObjVal? k
def fldOpt (j : Json) (k : String) : Option Json :=
  match j.getObjVal? k with
  | .ok .null => none
  | .ok v => some v
  | .error _ => none
def getBool (j : Json) : Except String Bool := j.getBool?
def getStr (j : Json) : Except String String := j.getStr?

def listFn {β : Type} (l : List β) (d : β) : Nat → β := fun i => l.getD i d

def getDraw (j : Json) : Except String Draw := do
  match ← getArr j with
  | [.str "u", r] => pure (.unif (← getRat r))
  | [.str "e", r] => pure (.expo (← getRat r))
  | [.str "c", i] => pure (.choice (← getNat i))
  | [.str "s", l] => pure (.sample (← getList getNat l))
  | [.str "b", k] => pure (.binom (← getNat k))
  | _ => .error "bad draw"

def jCall (c : Call) : Json :=
  match c with
  | .unif => Json.arr #[Json.str "u"]
  | .expo r => Json.arr #[Json.str "e", jRat r]
  | .choice seq => Json.arr #[Json.str "c", jArr (jArr jNat) seq]
  | .sample n k => Json.arr #[Json.str "s", jNat n, jNat k]
  | .binom n p => Json.arr #[Json.str "b", jNat n, jRat p]

def jSt (s : St) : Json := Json.str (match s with | .S => "S" | .I => "I" | .R => "R")

def errObj (e : String) : Json := Json.mkObj [("ok", Json.bool false), ("err", Json.str e)]

end Drv

open Drv

/-! ### _ListDict_ op sequences (C16) -/
namespace DrvLD

def jLD (s : LD (List Nat)) : Json :=
  Json.mkObj [("items", jArr (jArr jNat) s.items),
              ("weights", jArr (fun x => jRat (s.getW x)) s.items),
              ("maxW", jRat s.maxW), ("total", jRat s.totalWeight), ("maxCnt", jInt s.maxCnt),
              ("nweight", jNat s.weight.length)]

/-- ops: ["ins", item, w|null], ["upd", item, w|null], ["rem", item], ["cho", [[i, r], ...]] -/
def stepOp (s : LD (List Nat)) (j : Json) : Except String (LD (List Nat) × Json) := do
  match ← getArr j with
  | [.str "ins", it, w] =>
    let it ← getList getNat it
    let w ← (match w with | .null => pure none | x => (getRat x).map some)
    match s.insert it w with
    | some s' => pure (s', jLD s')
    | none => .error "KeyError"
  | [.str "upd", it, w] =>
    let it ← getList getNat it
    let w ← (match w with | .null => pure none | x => (getRat x).map some)
    match s.update it w with
    | some s' => pure (s', jLD s')
    | none => .error "Exception"
  | [.str "rem", it] =>
    let it ← getList getNat it
    match s.remove it with
    | some s' => pure (s', jLD s')
    | none => .error "KeyError"
  | [.str "cho", draws] =>
    let ds ← getList (fun d => do
      match ← getArr d with
      | [i, r] => pure ((← getNat i), (← getRat r))
      | _ => .error "bad cho draw") draws
    if s.weighted ∧ s.maxW = 0 ∧ !s.items.isEmpty then .error "ZeroDivisionError" else
    match s.chooseRandom ds with
    | some (c, k) => pure (s, Json.mkObj [("chosen", jArr jNat c), ("rounds", jNat k)])
    | none => .error "choose-failed"
  | _ => .error "bad op"

def run (j : Json) : Except String Json := do
  let weighted ← getBool (← fld j "weighted")
  let ops ← getArr (← fld j "ops")
  let mut s : LD (List Nat) := LD.empty weighted
  let mut outs : Array Json := #[]
  for op in ops do
    match stepOp s op with
    | .ok (s', o) => s := s'; outs := outs.push o
    | .error e => outs := outs.push (Json.mkObj [("err", Json.str e)]); break
  pure (Json.mkObj [("ok", Json.bool true), ("outs", Json.arr outs)])
end DrvLD

/-! ### Gillespie_SIR / Gillespie_SIS -/
namespace DrvG
open Gillespie

def pairTable (l : List (Nat × Nat × Rat)) : Node → Node → Rat :=
  fun u v => match l.find? (fun e => e.1 = u ∧ e.2.1 = v) with
    | some e => e.2.2
    | none => 0

def getParams (j : Json) : Except String GParams := do
  let n ← getNat (← fld j "n")
  let adj ← getList (getList getNat) (← fld j "adj")
  let tau ← getRat (← fld j "tau")
  let gamma ← getRat (← fld j "gamma")
  let sis ← getBool (← fld j "sis")
  let ew ← match fldOpt j "ew" with
    | none => pure none
    | some e => do
      let l ← getList (fun t => do
        match ← getArr t with
        | [u, v, w] => pure ((← getNat u), (← getNat v), (← getRat w))
        | _ => .error "bad ew") e
      pure (some (pairTable l))
  let nw ← match fldOpt j "nw" with
    | none => pure none
    | some e => do
      let l ← getList getRat e
      pure (some (listFn l 0))
  pure { nodes := List.range n, nbrs := listFn adj [], tau := tau, gamma := gamma, ew := ew, nw := nw, sis := sis }

/-- the caller's initial-condition request as an `InitSpec` -/
def getInitSpec (j : Json) : Except String InitSpec := do
  let kind ← getStr (← fld j "kind")
  match kind with
  | "list" => pure (InitSpec.nodes (← getList getNat (← fld j "nodes")))
  | "single" => pure (InitSpec.single (← getNat (← fld j "node")))
  | "default" => pure InitSpec.default
  | "rho" => pure (InitSpec.rho (← getRat (← fld j "rho")))
  | "both" => pure (InitSpec.both (← getList getNat (← fld j "nodes")) (← getRat (← fld j "rho")))
  | _ => .error "bad init kind"

/-- argument normalisation (3148–3158): the proved `InitArgs.normInit` on the parsed request -/
def normInit (n : Nat) (j : Json) : TM (List Node) :=
  match getInitSpec j with
  | .ok sp => InitArgs.normInit n sp
  | .error e => TM.fail e

/-- op "norminit": argument normalisation on its own -/
def normInitOp (j : Json) : Except String Json := do
  let n ← getNat (← fld j "n")
  let tape ← getList getDraw (← fld j "tape")
  let init ← fld j "init"
  match normInit n init { tape := tape } with
  | .error e => pure (errObj e)
  | .ok (l, ts) => pure (Json.mkObj [("ok", Json.bool true), ("infs", jArr jNat l), ("used", jNat (tape.length - ts.tape.length))])

def jEvent (e : Rat × GEvent) : Json :=
  match e with
  | (t, .recover u) => Json.arr #[jRat t, Json.str "r", jNat u]
  | (t, .transmit u v) => Json.arr #[jRat t, Json.str "t", jNat u, jNat v]

def run (j : Json) : Except String Json := do
  let P ← getParams j
  let recs ← getList getNat (← fld j "recs")
  let tmin ← getRat (← fld j "tmin")
  let tmax ← getERat (← fld j "tmax")
  let tape ← getList getDraw (← fld j "tape")
  let init ← fld j "init"
  let prog : TM GState := do
    let infs ← normInit P.nodes.length init
    Gillespie.run P infs recs tmin tmax 100000 1000
  match prog { tape := tape } with
  | .error e => pure (errObj e)
  | .ok (s, ts) =>
    pure (Json.mkObj [("ok", Json.bool true),
      ("trace", Json.arr (ts.trace.map jCall)),
      ("unused", jNat ts.tape.length),
      ("times", jArr jRat s.times.reverse),
      ("S", jArr jInt s.S.reverse), ("I", jArr jInt s.I.reverse), ("R", jArr jInt s.R.reverse),
      ("log", jArr jEvent s.log.reverse),
      ("status", jArr (fun u => jSt (s.status u)) P.nodes),
      ("inf_items", jArr jNat s.inf.items),
      ("link_items", jArr (fun p => jArr jNat [p.1, p.2]) s.links.items)])
end DrvG

/-- CTMC specification: enabled events and rates in a given status vector -/
def DrvChainRates (j : Json) : Except String Json := do
  let P ← DrvG.getParams j
  let stl ← getList getStr (← fld j "status")
  let st : Node → St := fun u => match stl.getD u "S" with | "I" => St.I | "R" => St.R | _ => St.S
  let recs := (Chain.enabledRec P st).map fun u => Json.arr #[Json.str "r", jNat u, jRat (Chain.nodeRate P u)]
  let trs := (Chain.enabledTrans P st).map fun p => Json.arr #[Json.str "t", jNat p.1, jNat p.2, jRat (Chain.edgeRate P p.1 p.2)]
  pure (Json.mkObj [("ok", Json.bool true), ("events", Json.arr (recs ++ trs).toArray), ("total", jRat (Chain.totalRate P st))])

/-! ### predicates evaluated on implementation output -/
namespace DrvPred
open Pred

def getTraj (j : Json) : Except String Traj := do
  let times ← getList getRat (← fld j "times")
  let cols ← getList (getList (fun x => x.getInt?)) (← fld j "cols")
  pure { times := times, cols := cols }

def jTraj (t : Traj) : Json := Json.mkObj [("times", jArr jRat t.times), ("cols", jArr (jArr jInt) t.cols)]

def getKind (s : String) : Except String TrajKind :=
  match s with
  | "sirCont" => pure .sirCont | "sisCont" => pure .sisCont | "sirDisc" => pure .sirDisc
  | "sisDisc" => pure .sisDisc | "generic" => pure .generic
  | _ => .error "bad kind"

def getHist (j : Json) : Except String Hist :=
  getList (fun e => do
    match ← getArr e with
    | [t, s] => pure ((← getRat t), (← getStr s))
    | _ => .error "bad hist entry") j

def getTrans (j : Json) : Except String Trans := do
  match ← getArr j with
  | [t, u, v] =>
    let src ← (match u with | .null => pure none | x => (getNat x).map some)
    pure { t := (← getRat t), src := src, tgt := (← getNat v) }
  | _ => .error "bad transmission"

def wf (j : Json) : Except String Json := do
  let kind ← getKind (← getStr (← fld j "kind"))
  let N ← getNat (← fld j "N")
  let tmin ← getRat (← fld j "tmin")
  let tmax ← getERat (← fld j "tmax")
  let ext ← getBool (← fld j "extinct")
  let col ← getBool (← fld j "collapsed")
  let tr ← getTraj j
  pure (Json.mkObj [("ok", Json.bool true), ("holds", Json.bool (wellFormed kind N tmin tmax ext col tr))])

def tv (j : Json) : Except String Json := do
  let forest ← getBool (← fld j "forest")
  let shift ← getRat (← fld j "shift")
  let N ← getNat (← fld j "N")
  let succ ← getList (getList getNat) (← fld j "succ")
  let tmin ← getRat (← fld j "tmin")
  let init ← getList getNat (← fld j "init")
  let hs ← getList getHist (← fld j "hists")
  let trs ← getList getTrans (← fld j "trans")
  let induced ← getList (fun e => do
      match ← getArr e with
      | [a, b, c] => pure ((← getStr a), (← getStr b), (← getStr c))
      | _ => .error "bad induced") (← fld j "induced")
  let spont ← getList (fun e => do
      match ← getArr e with
      | [a, b] => pure ((← getStr a), (← getStr b))
      | _ => .error "bad spont") (← fld j "spont")
  let spec : TVSpec := { induced := induced, spont := spont }
  pure (Json.mkObj [("ok", Json.bool true),
    ("holds", Json.bool (transmissionsValid spec forest shift N (listFn succ []) tmin init hs trs))])

/-- C10: histories well-formed, summary spec on the implementation's histories, collapsed arrays, node_status queries -/
def c10 (j : Json) : Except String Json := do
  let legal ← getList (fun e => do
      match ← getArr e with
      | [a, b] => pure ((← getStr a), (← getStr b))
      | _ => .error "bad legal") (← fld j "legal")
  let tmin ← getRat (← fld j "tmin")
  let hs ← getList getHist (← fld j "hists")
  let statuses ← getList getStr (← fld j "statuses")
  let spec := summarySpec hs statuses
  let histOK := hs.all (histWFg legal tmin)
  let arrEq ← match fldOpt j "arrays" with
    | none => pure true
    | some a => do
      let tr ← getTraj a
      let strict ← getBool (← fld j "strict")
      pure (arraysMatch strict tr hs statuses)
  let qs ← getList (fun q => do
      match ← getArr q with
      | [v, t] => pure ((← getNat v), (← getRat t))
      | _ => .error "bad query") (← fld j "queries")
  let answers := qs.map fun (v, t) => match statusAt (hs.getD v []) t with | some s => Json.str s | none => Json.null
  pure (Json.mkObj [("ok", Json.bool true), ("hist_wf", Json.bool histOK), ("arrays_eq", Json.bool arrEq),
    ("summary", jTraj spec), ("answers", Json.arr answers.toArray)])

/-- op "hist": `_transform_to_node_history_` for one node -/
def hist (j : Json) : Except String Json := do
  let tmin ← getRat (← fld j "tmin")
  let sir ← getBool (← fld j "sir")
  let h ← if sir then do
      let opt (x : Json) : Except String (Option Rat) := match x with | .null => pure none | y => (getRat y).map some
      pure (History.sirHist tmin (← opt (← fld j "inf")) (← opt (← fld j "rec")))
    else do
      pure (History.sisHist tmin (← getList getRat (← fld j "infs")) (← getList getRat (← fld j "recs")))
  pure (Json.mkObj [("ok", Json.bool true), ("hist", jArr (fun (e : Rat × String) => Json.arr #[jRat e.1, Json.str e.2]) h),
    ("wf", Json.bool (histWF sir tmin h))])

def ic (j : Json) : Except String Json := do
  let sir ← getBool (← fld j "sir")
  let N ← getNat (← fld j "N")
  let infs ← getList getNat (← fld j "infs")
  let recs ← getList getNat (← fld j "recs")
  let row0 ← getList (fun x => x.getInt?) (← fld j "row0")
  let st ← (match fldOpt j "status" with | none => pure none | some x => (getList getStr x).map some)
  pure (Json.mkObj [("ok", Json.bool true), ("holds", Json.bool (initialOK N infs recs row0 st sir))])
end DrvPred

/-! ### helpers (C20) -/
namespace DrvHelp
open Helpers

def jOptInt (o : Option Int) : Json := match o with | some i => jInt i | none => Json.null

def subsample (j : Json) : Except String Json := do
  let report ← getList getRat (← fld j "report")
  let times ← getList getRat (← fld j "times")
  let series ← getList (getList (fun x => x.getInt?)) (← fld j "series")
  -- python computes the first series first; errors are the same for all
  let outs := series.map fun st => Helpers.subsample report times st
  match outs.head? with
  | some (.error e) => pure (errObj e)
  | _ =>
    let res ← outs.mapM fun o => match o with
      | .ok l => pure (jArr jOptInt l)
      | .error e => .error e
    pure (Json.mkObj [("ok", Json.bool true), ("outs", Json.arr res.toArray),
      ("spec", jArr (fun st => jArr (fun r => jOptInt (lastLE (times.zip st) r)) report) series)])

def timeshift (j : Json) : Except String Json := do
  let times ← getList getRat (← fld j "times")
  let L ← getList getRat (← fld j "L")
  let thr ← getRat (← fld j "thr")
  match Helpers.timeShift times L thr with
  | .ok t => pure (Json.mkObj [("ok", Json.bool true), ("t", jRat t)])
  | .error e => pure (errObj e)

def degree (j : Json) : Except String Json := do
  let adj ← getList (getList getNat) (← fld j "adj")
  let xs ← getList getRat (← fld j "xs")
  let T ← getRat (← fld j "T")
  let degs := adj.map (·.length)
  let ks := List.range (maxDeg degs + 1)
  pure (Json.mkObj [("ok", Json.bool true),
    ("Pk", jArr (fun k => jRat (Pk degs k)) ks),
    ("Pnk", jArr (fun k1 => jArr (fun k2 => jRat (Pnk adj k1 k2)) ks) ks),
    ("psi", jArr (fun x => jRat (psi degs x)) xs),
    ("psiP", jArr (fun x => jRat (psiP degs x)) xs),
    ("psiDP", jArr (fun x => jRat (psiDP degs x)) xs),
    ("R0", if psiP degs 1 = 0 then Json.null else jRat (R0 degs T)),
    ("meank", jRat (meanDeg degs fun k => (k : Rat))),
    ("meank2mk", jRat (meanDeg degs fun k => (k : Rat) * ((k : Rat) - 1)))])
end DrvHelp

/-! ### event-driven SIR (C11) -/
namespace DrvES
open EventSIR

def getPairTableE (j : Json) : Except String (Node → Node → ERat) := do
  let l ← getList (fun t => do
    match ← getArr t with
    | [u, v, w] => pure ((← getNat u), (← getNat v), (← getERat w))
    | _ => .error "bad delay entry") j
  pure fun u v => match l.find? (fun e => e.1 = u ∧ e.2.1 = v) with
    | some e => e.2.2
    | none => none

def jTrans (e : Rat × Option Node × Node) : Json :=
  Json.arr #[jRat e.1, (match e.2.1 with | some u => jNat u | none => Json.null), jNat e.2.2]

def run (j : Json) : Except String Json := do
  let n ← getNat (← fld j "n")
  let adj ← getList (getList getNat) (← fld j "adj")
  let tmin ← getRat (← fld j "tmin")
  let tmax ← getERat (← fld j "tmax")
  let infs ← getList getNat (← fld j "infs")
  let recs ← getList getNat (← fld j "recs")
  let nbrs := listFn adj []
  let nodes := List.range n
  let (joint, tables) ← (match fldOpt j "joint" with
    | some jj => do
      let l ← getList (fun e => do
        match ← getArr e with
        | [ds, d] =>
          let ds ← getList (fun p => do
            match ← getArr p with
            | [v, w] => pure ((← getNat v), (← getERat w))
            | _ => .error "bad joint pair") ds
          pure (ds, (← getERat d))
        | _ => .error "bad joint entry") jj
      let jf : Node → List Node → List (Node × ERat) × ERat := fun u _ => l.getD u ([], none)
      let delay : Node → Node → ERat := fun u v =>
        match ((l.getD u ([], none)).1.find? fun p => p.1 = v) with | some p => p.2 | none => none
      let dur : Node → ERat := fun u => (l.getD u ([], none)).2
      pure (jf, (delay, dur))
    | none => do
      let delay ← getPairTableE (← fld j "delay")
      let durl ← getList getERat (← fld j "dur")
      let dur : Node → ERat := fun u => durl.getD u none
      pure (jointOfTables delay dur, (delay, dur)))
  let P : ESParams := { nodes := nodes, nbrs := nbrs, joint := joint, tmin := tmin, tmax := tmax }
  let s := EventSIR.run P (fun _ => 0) infs recs (4 * n * n + 4 * n + 10)
  let (ts, S, I, R) := rows s infs.length
  let T := fppTime nodes nbrs tables.1 tables.2 tmin infs recs
  -- predicate on the implementation's own output, when supplied
  let holds ← (match fldOpt j "impl_trans", fldOpt j "impl_rec" with
    | some it, some ir => do
      let tr ← getList DrvPred.getTrans it
      let rc ← getList (fun e => do
        match ← getArr e with
        | [t, v] => pure ((← getRat t), (← getNat v))
        | _ => .error "bad rec") ir
      pure (Json.bool (isFPP nodes nbrs tables.1 tables.2 tmin tmax infs recs (tr.map fun e => (e.t, e.src, e.tgt)) rc))
    | _, _ => pure Json.null)
  pure (Json.mkObj [("ok", Json.bool true), ("times", jArr jRat ts), ("S", jArr jInt S), ("I", jArr jInt I), ("R", jArr jInt R),
    ("trans", jArr jTrans s.trans.reverse), ("queue_left", jNat s.queue.length),
    ("status", jArr (fun u => jSt (s.status u)) nodes),
    ("rec_time", jArr (fun u => jERat (s.recTime u)) nodes),
    ("fpp", jArr (fun u => jERat (T u)) nodes), ("isFPP", holds),
    ("out", jArr jNat (outComp nodes nbrs tables.1 tables.2 infs recs)),
    ("H", Json.arr ((nodes.flatMap fun u => ((nbrs u).filter fun v => keeps nbrs tables.1 tables.2 u v).map fun v =>
        Json.arr #[jNat u, jNat v, jERat (tables.1 u v)]).toArray))])
end DrvES

/-! ### discrete-time simulators (C12) -/
namespace DrvD
open Discrete

def run (j : Json) : Except String Json := do
  let n ← getNat (← fld j "n")
  let adj ← getList (getList getNat) (← fld j "adj")
  let tmin ← getRat (← fld j "tmin")
  let tmax ← getERat (← fld j "tmax")
  let infs ← getList getNat (← fld j "infs")
  let recs ← getList getNat (← fld j "recs")
  let contacts ← getList (fun e => do
    match ← getArr e with
    | [u, v] => pure ((← getNat u), (← getNat v))
    | _ => .error "bad contact") (← fld j "contacts")
  let recSteps ← (match fldOpt j "recsteps" with
    | none => pure none
    | some r => do
      let l ← getList getNat r
      pure (some (listFn l 1)))
  -- optional age-dependent outcomes: [u, v, [b0, b1, ...]] = result of the 1st, 2nd, ... ask (last entry repeats)
  let sched ← (match fldOpt j "sched" with
    | none => pure []
    | some x => getList (fun e => do
        match ← getArr e with
        | [u, v, bs] => pure ((← getNat u), (← getNat v), (← getList getBool bs))
        | _ => .error "bad sched") x)
  let rule : Nat → Node → Node → Bool := fun a u v =>
    match sched.find? (fun e => e.1 = u ∧ e.2.1 = v) with
    | some e => e.2.2.getD (min a (e.2.2.length - 1)) false
    | none => contacts.contains (u, v)
  let P : DParams := { nodes := List.range n, nbrs := listFn adj [], rule := rule,
                       recSteps := recSteps, tmin := tmin, tmax := tmax }
  let s := Discrete.run P infs recs 10000
  let holds ← (match fldOpt j "impl_inftime" with
    | some it => do
      let l ← getList (fun e => do
        match ← getArr e with
        | [v, t] => pure ((← getNat v), (← getRat t))
        | _ => .error "bad inftime") it
      pure (Json.bool (isBFS P infs recs l))
    | none => pure Json.null)
  pure (Json.mkObj [("ok", Json.bool true), ("times", jArr jRat s.t.reverse), ("S", jArr jInt s.S.reverse),
    ("I", jArr jInt s.I.reverse), ("R", jArr jInt s.R.reverse),
    ("inftime", jArr (fun e => Json.arr #[jNat e.1, jRat e.2]) s.infTime),
    ("infectors", jArr (fun e => Json.arr #[jNat e.1, jRat e.2.1, jArr jNat e.2.2]) s.infectors),
    ("bfs", jArr (fun v => match bfs P infs recs v with | some d => jNat d | none => Json.null) P.nodes),
    ("isBFS", holds)])

def reedfrost (j : Json) : Except String Json := do
  let n ← getNat (← fld j "n")
  let adj ← getList (getList getNat) (← fld j "adj")
  let inf ← getList getNat (← fld j "inf")
  let p ← getRat (← fld j "p")
  let nodes := List.range n
  pure (Json.mkObj [("ok", Json.bool true),
    ("prob", jArr (fun v => jRat (infProb p (infNbrs nodes (listFn adj []) inf v))) nodes)])

/-- the joint law of one generation as the model's sequential-draw program computes it (`ReedFrost.stepDist`):
raw list of (new_infecteds in infection order, mass) -/
def reedfrostJoint (j : Json) : Except String Json := do
  let adj ← getList (getList getNat) (← fld j "adj")
  let inf ← getList getNat (← fld j "inf")
  let sus ← getList getBool (← fld j "sus")
  let p ← getRat (← fld j "p")
  let redraw ← getBool (← fld j "redraw")
  let d := ReedFrost.stepDist p (listFn adj []) inf (fun v => sus.getD v false) redraw
  pure (Json.mkObj [("ok", Json.bool true),
    ("dist", jArr (fun e => Json.arr #[jArr jNat e.1, jRat e.2]) d)])
end DrvD

/-! ### event-driven SIS with arbitrary delays (C13) -/
namespace DrvSS
open EventSIS

def jChange (c : Change) : Json := Json.arr #[jRat c.1, jNat c.2.1, Json.bool c.2.2]

def run (j : Json) : Except String Json := do
  let n ← getNat (← fld j "n")
  let adj ← getList (getList getNat) (← fld j "adj")
  let tmin ← getRat (← fld j "tmin")
  let tmax ← getRat (← fld j "tmax")
  let infs ← getList getNat (← fld j "infs")
  let durl ← getList (getList getRat) (← fld j "dur")
  let dl ← getList (fun e => do
    match ← getArr e with
    | [u, v, per] => pure ((← getNat u), (← getNat v), (← getList (getList getRat) per))
    | _ => .error "bad delay entry") (← fld j "delay")
  let dur : Node → Nat → Rat := fun u k => let l := durl.getD u []; l.getD (k % l.length) 0
  let delays : Node → Node → Nat → List Rat := fun u v k =>
    match dl.find? (fun e => e.1 = u ∧ e.2.1 = v) with
    | some e => e.2.2.getD (k % e.2.2.length) []
    | none => []
  let P : SSParams := { nodes := List.range n, nbrs := listFn adj [], dur := dur, delays := delays, tmin := tmin, tmax := tmax }
  let fuel ← getNat (← fld j "fuel")
  let s := EventSIS.run P infs fuel
  let r := EventSIS.refRun P infs fuel
  pure (Json.mkObj [("ok", Json.bool true),
    ("log", jArr jChange s.log.reverse), ("trans", jArr DrvES.jTrans s.trans.reverse), ("queue_left", jNat s.queue.length),
    ("ref_log", jArr jChange r.log.reverse), ("ref_trans", jArr DrvES.jTrans r.trans.reverse),
    ("ref_left", jNat r.agenda.length), ("distinct", Json.bool (distinctTimes tmin r.seen))])
end DrvSS

/-! ### Gillespie_complex_contagion (C15) -/
namespace DrvCC

def getSt (s : String) : St := match s with | "I" => St.I | "R" => St.R | _ => St.S

def run (j : Json) : Except String Json := do
  let n ← getNat (← fld j "n")
  let adj ← getList (getList getNat) (← fld j "adj")
  let fam ← getStr (← fld j "family")
  let tau ← getRat (← fld j "tau")
  let gamma ← getRat (← fld j "gamma")
  let k ← getNat (← fld j "k")
  let ic ← getList getStr (← fld j "IC")
  let ret ← getList getStr (← fld j "ret")
  let tmin ← getRat (← fld j "tmin")
  let tmax ← getERat (← fld j "tmax")
  let tape ← getList getDraw (← fld j "tape")
  let nodes := List.range n
  let nbrs := listFn adj []
  let rate := ComplexFam.rateOf2 fam nodes nbrs tau gamma k
  let infl : (Node → St) → Node → List Node := fun st u => ComplexFam.inflOf2 fam nodes nbrs st u
  let P : CCParams St := ⟨nodes, rate, ComplexFam.chooseOf2 fam nbrs k, infl, ret.map getSt⟩
  match (Complex.run P (fun u => getSt (ic.getD u "S")) tmin tmax 100000 1000) { tape := tape } with
  | .error e => pure (errObj e)
  | .ok (s, ts) =>
    pure (Json.mkObj [("ok", Json.bool true), ("trace", Json.arr (ts.trace.map jCall)), ("unused", jNat ts.tape.length),
      ("times", jArr jRat s.times.reverse), ("cols", jArr (fun c => jArr jInt c.reverse) s.data),
      ("log", jArr (fun e => Json.arr #[jRat e.1, jNat e.2.1, jSt e.2.2]) s.log.reverse),
      ("items", jArr jNat s.ld.items), ("weights", jArr (fun u => jRat (s.ld.getW u)) s.ld.items),
      ("rates", jArr (fun u => jRat (P.rate s.status u)) nodes)])
end DrvCC

/-! ### Gillespie_simple_contagion (C03) -/
namespace DrvSC
open Simple

def getParams (j : Json) : Except String (SCParams String) := do
  let n ← getNat (← fld j "n")
  let succ ← getList (getList getNat) (← fld j "succ")
  let pred ← getList (getList getNat) (← fld j "pred")
  let directed ← getBool (← fld j "directed")
  let ret ← getList getStr (← fld j "ret")
  let spont ← getList (fun e => do
    match ← getArr e with
    | [a, b, r, w] =>
      let w ← (match w with
        | .null => pure none
        | x => do let l ← getList getRat x; pure (some (listFn l 0)))
      pure ({ src := (← getStr a), dst := (← getStr b), rate := (← getRat r), w := w } : SpontTr String)
    | _ => .error "bad spont") (← fld j "spont")
  let ind ← getList (fun e => do
    match ← getArr e with
    | [a, b, c, r, w] =>
      let w ← (match w with
        | .null => pure none
        | x => do
          let l ← getList (fun t => do
            match ← getArr t with
            | [u, v, ww] => pure ((← getNat u), (← getNat v), (← getRat ww))
            | _ => .error "bad ew") x
          pure (some (DrvG.pairTable l)))
      pure ({ a := (← getStr a), b := (← getStr b), c := (← getStr c), rate := (← getRat r), w := w } : IndTr String)
    | _ => .error "bad induced") (← fld j "induced")
  pure { nodes := List.range n, succ := listFn succ [], pred := listFn pred [], directed := directed,
         spont := spont, ind := ind, ret := ret }

def run (j : Json) : Except String Json := do
  let P ← getParams j
  let ic ← getList getStr (← fld j "IC")
  let tmin ← getRat (← fld j "tmin")
  let tmax ← getERat (← fld j "tmax")
  let tape ← getList getDraw (← fld j "tape")
  match (Simple.run P (fun u => ic.getD u "") tmin tmax 100000 1000) { tape := tape } with
  | .error e => pure (errObj e)
  | .ok (s, ts) =>
    pure (Json.mkObj [("ok", Json.bool true), ("trace", Json.arr (ts.trace.map jCall)), ("unused", jNat ts.tape.length),
      ("times", jArr jRat s.times.reverse), ("cols", jArr (fun c => jArr jInt c.reverse) s.data),
      ("log", jArr (fun e => Json.arr #[jRat e.1, (match e.2.1 with | some u => jNat u | none => Json.null),
                                          jNat e.2.2.1, Json.str e.2.2.2]) s.log.reverse),
      ("pt", jArr (fun ld => jArr (jArr jNat) ld.items) (s.ptS ++ s.ptI))])

/-- specification: enabled events and their rates in a status vector -/
def rates (j : Json) : Except String Json := do
  let P ← getParams j
  let stl ← getList getStr (← fld j "status")
  let st : Node → String := fun u => stl.getD u ""
  let evS := P.spont.flatMap fun tr => (enabledS P st tr).map fun e =>
    Json.arr #[Json.null, jNat e.1, Json.str tr.dst, jRat e.2]
  let evI := P.ind.flatMap fun tr => (enabledI P st tr).map fun e =>
    Json.arr #[jNat e.1.1, jNat e.1.2, Json.str tr.c, jRat e.2]
  pure (Json.mkObj [("ok", Json.bool true), ("events", Json.arr (evS ++ evI).toArray), ("total", jRat (specTotal P st))])
end DrvSC

/-! ### percolation estimators (C17) -/
namespace DrvPerc
open Perc
def run (j : Json) : Except String Json := do
  let n ← getNat (← fld j "n")
  let succL ← getList (getList getNat) (← fld j "succ")
  let nodes := List.range n
  let succ := listFn succL []
  pure (Json.mkObj [("ok", Json.bool true),
    ("allowed", jArr (fun p => Json.arr #[jRat p.1, jRat p.2]) (allowed nodes succ)),
    ("maxscc", jNat (maxSccSize nodes succ))])
end DrvPerc

/-! ### ODE initial conditions (C06) -/
namespace DrvIC
open InitCond
def run (j : Json) : Except String Json := do
  let adj ← getList (getList getNat) (← fld j "adj")
  let infs ← getList getNat (← fld j "infs")
  let recs ← getList getNat (← fld j "recs")
  let rho ← getRat (← fld j "rho")
  let st := statusOf infs recs
  let ks := List.range (maxDeg adj + 1)
  let sts := [St.S, St.I, St.R]
  pure (Json.mkObj [("ok", Json.bool true), ("N", jNat adj.length), ("twoM", jNat (twoM adj)),
    ("Nk", jArr (fun k => jNat (Nk adj k)) ks),
    ("count", jArr (fun x => jNat (count adj st x)) sts),
    ("class", jArr (fun x => jArr (fun k => jNat (classCount adj st x k)) ks) sts),
    ("pairs", jArr (fun a => jArr (fun b => jNat (pairCount adj st a b)) sts) sts),
    ("rho", Json.mkObj [("S", jRat (rhoS adj rho)), ("I", jRat (rhoI adj rho)),
        ("Sk", jArr (fun k => jRat (rhoSk adj rho k)) ks), ("Ik", jArr (fun k => jRat (rhoIk adj rho k)) ks),
        ("SS", jRat (rhoSS adj rho)), ("SI", jRat (rhoSI adj rho)), ("II", jRat (rhoII adj rho))])])
end DrvIC

/-! ### ODE right-hand sides (C06–C08) -/
namespace DrvODE
open ODE

def vec (l : List Rat) : Nat → Rat := fun k => l.getD k 0
def out (K : Nat) (f : Nat → Rat) : List Rat := (List.range K).map f

def run (j : Json) : Except String Json := do
  let model ← getStr (← fld j "model")
  let pr ← getList getRat (← fld j "p")          -- scalar parameters
  let vs ← getList (getList getRat) (← fld j "v") -- vector parameters / state blocks
  let p := fun (i : Nat) => pr.getD i 0
  let v := fun (i : Nat) => vec (vs.getD i [])
  let K := (vs.getD 0 []).length
  let res : List Rat ← (match model with
    | "sisHomMF" => let r := sisHomMF (p 0) (p 1) (p 2) (p 3) (p 4); pure [r.1, r.2]
    | "sirHomMF" => let r := sirHomMF (p 0) (p 1) (p 2) (p 3) (p 4); pure [r.1, r.2]
    | "sisHomPW" => let r := sisHomPW (p 0) (p 1) (p 2) (p 3) (p 4) (p 5) (p 6); pure [r.1, r.2.1, r.2.2]
    | "sirHomPW" => let r := sirHomPW (p 0) (p 1) (p 2) (p 3) (p 4) (p 5) (p 6); pure [r.1, r.2.1, r.2.2.1, r.2.2.2]
    | "sisHetMF" => let r := sisHetMF K (p 0) (p 1) (v 0) (v 1); pure (out K r.1 ++ out K r.2)
    | "sirHetMF" => let r := sirHetMF K (p 0) (p 1) (v 0) (v 1) (p 2) (v 2); pure (r.1 :: out K r.2)
    | "sisCompactPW" => let r := sisCompactPW K (p 0) (p 1) (p 2) (v 0) (v 1) (p 3) (p 4); pure (out K r.1 ++ [r.2.1, r.2.2])
    | "sirCompactPW" => let r := sirCompactPW K (p 0) (p 1) (p 2) (v 0) (p 3) (p 4) (p 5); pure (out K r.1 ++ [r.2.1, r.2.2.1, r.2.2.2])
    | "sirSuperCompactPW" => let r := sirSuperCompactPW K (v 0) (p 0) (p 1) (p 2) (p 3) (p 4) (p 5) (p 6); pure [r.1, r.2.1, r.2.2.1, r.2.2.2]
    | "sisSuperCompactPW" => let r := sisSuperCompactPW (p 0) (p 1) (p 2) (p 3) (p 4) (p 5) (p 6) (p 7) (p 8) (p 9); pure [r.1, r.2.1, r.2.2.1, r.2.2.2]
    | "ebcm" => let r := ebcm K (v 0) (p 0) (p 1) (p 2) (p 3) (p 4) (p 5) (p 6); pure [r.1, r.2]
    | "sirCompactED" => let r := sirCompactED K (p 0) (p 1) (p 2) (v 0) (p 3) (p 4); pure (out K r.1 ++ [r.2.1, r.2.2])
    | "sisIndividual" | "sirIndividual" => do
      let adj ← getList (getList getNat) (← fld j "adj")
      let trl ← getList (getList getRat) (← fld j "tr")    -- tr[i][pos] for the pos-th neighbour of i
      let n := adj.length
      let nbrs := listFn adj []
      let tr : Nat → Nat → Rat := fun i jn => match (nbrs i).idxOf? jn with
        | some pos => (trl.getD i []).getD pos 0
        | none => 0
      if model == "sisIndividual" then pure (out n (sisIndividual nbrs tr (v 0) (v 1)))
      else let r := sirIndividual nbrs tr (v 0) (v 1) (v 2); pure (out n r.1 ++ out n r.2)
    | "sisHetPW" | "sirHetPW" => do
      let mat := fun (l : List Rat) (k l' : Nat) => l.getD (k * K + l') 0
      let flat := fun (f : Nat → Nat → Rat) => (List.range K).flatMap fun k => (List.range K).map fun l => f k l
      if model == "sisHetPW" then
        let r := sisHetPW K (p 0) (p 1) (v 0) (v 1) (mat (vs.getD 2 [])) (v 3) (mat (vs.getD 4 [])) (mat (vs.getD 5 []))
        pure (out K r.1 ++ flat r.2.1 ++ flat r.2.2)
      else
        let r := sirHetPW K (p 0) (p 1) (v 0) (v 1) (v 2) (mat (vs.getD 3 [])) (mat (vs.getD 4 []))
        pure (out K r.1 ++ out K r.2.1 ++ flat r.2.2.1 ++ flat r.2.2.2)
    | "sisEffDeg" | "sirEffDeg" => do
      let A ← getNat (← fld j "A")
      let B ← getNat (← fld j "B")
      let mat := fun (l : List Rat) (s i : Nat) => l.getD (s * B + i) 0
      let flat := fun (f : Nat → Nat → Rat) => (List.range A).flatMap fun s => (List.range B).map fun i => f s i
      if model == "sisEffDeg" then
        let r := sisEffDeg A B (p 0) (p 1) (mat (vs.getD 0 [])) (mat (vs.getD 1 []))
        pure (flat r.1 ++ flat r.2)
      else
        let r := sirEffDeg A B (p 0) (p 1) (p 2) (mat (vs.getD 0 [])) (p 3)
        pure (flat r.1 ++ [r.2])
    | "sisPairBased" | "sirPairBased" => do
      let adj ← getList (getList getNat) (← fld j "adj")
      let trl ← getList (getList getRat) (← fld j "tr")
      let n := adj.length
      let nbrs := listFn adj []
      let tr : Nat → Nat → Rat := fun i jn => match (nbrs i).idxOf? jn with
        | some pos => (trl.getD i []).getD pos 0
        | none => 0
      let mat := fun (l : List Rat) (a b : Nat) => l.getD (a * n + b) 0
      let flat := fun (f : Nat → Nat → Rat) => (List.range n).flatMap fun a => (List.range n).map fun b => f a b
      if model == "sisPairBased" then
        let r := sisPairBased nbrs tr (v 0) (v 1) (mat (vs.getD 2 [])) (mat (vs.getD 3 []))
        pure (out n r.1 ++ flat r.2.1 ++ flat r.2.2)
      else
        let r := sirPairBased nbrs tr (v 0) (v 1) (v 2) (mat (vs.getD 3 [])) (mat (vs.getD 4 []))
        pure (out n r.1 ++ out n r.2.1 ++ flat r.2.2.1 ++ flat r.2.2.2)
    | "ebcmPrefMix" => do
      let ks ← getList getNat (← fld j "ks")
      let m := ks.length
      let byDeg := fun (l : List Rat) (d : Nat) => match ks.idxOf? d with | some i => l.getD i 0 | none => 0
      let pnk := fun (d d' : Nat) => match ks.idxOf? d, ks.idxOf? d' with
        | some a, some b => (vs.getD 1 []).getD (a * m + b) 0
        | _, _ => 0
      let r := ebcmPrefMix ks (p 0) (p 1) (p 2) (byDeg (vs.getD 0 [])) pnk (p 3) (byDeg (vs.getD 2 [])) (byDeg (vs.getD 3 []))
      pure (r.1 :: ks.flatMap fun d => [r.2.1 d, r.2.2 d])
    | _ => .error s!"unknown model {model}")
  pure (Json.mkObj [("ok", Json.bool true), ("dy", jArr jRat res)])
end DrvODE

/-! ### fast_SIS (C02) -/
namespace DrvFS
open FastSIS
def run (j : Json) : Except String Json := do
  let n ← getNat (← fld j "n")
  let adj ← getList (getList getNat) (← fld j "adj")
  let tau ← getRat (← fld j "tau")
  let gamma ← getRat (← fld j "gamma")
  let tmin ← getRat (← fld j "tmin")
  let tmax ← getRat (← fld j "tmax")
  let infs ← getList getNat (← fld j "infs")
  let tape ← getList getDraw (← fld j "tape")
  let ew ← match fldOpt j "ew" with
    | none => pure (fun (_ _ : Node) => (1 : Rat))
    | some e => do
      let l ← getList (fun t => do
        match ← getArr t with
        | [u, v, w] => pure ((← getNat u), (← getNat v), (← getRat w))
        | _ => .error "bad ew") e
      pure (DrvG.pairTable l)
  let nw ← match fldOpt j "nw" with
    | none => pure (fun (_ : Node) => (1 : Rat))
    | some e => do
      let l ← getList getRat e
      pure (listFn l 0)
  let P : FSParams := ⟨List.range n, listFn adj [], fun u v => tau * ew u v, fun u => gamma * nw u, tmin, tmax⟩
  match (FastSIS.run P infs 200000) { tape := tape } with
  | .error e => pure (errObj e)
  | .ok (s, ts) =>
    pure (Json.mkObj [("ok", Json.bool true), ("trace", Json.arr (ts.trace.map jCall)), ("unused", jNat ts.tape.length),
      ("log", jArr (fun c => Json.arr #[jRat c.1, jNat c.2.1, Json.bool c.2.2]) s.log.reverse),
      ("trans", jArr DrvES.jTrans s.trans.reverse)])
end DrvFS

def dispatch (j : Json) : Except String Json := do
  let op ← getStr (← fld j "op")
  match op with
  | "ld" => DrvLD.run j
  | "gillespie" => DrvG.run j
  | "chain_rates" => DrvChainRates j
  | "wf" => DrvPred.wf j
  | "tv" => DrvPred.tv j
  | "c10" => DrvPred.c10 j
  | "ic" => DrvPred.ic j
  | "hist" => DrvPred.hist j
  | "norminit" => DrvG.normInitOp j
  | "subsample" => DrvHelp.subsample j
  | "timeshift" => DrvHelp.timeshift j
  | "degree" => DrvHelp.degree j
  | "esir" => DrvES.run j
  | "dsir" => DrvD.run j
  | "esis" => DrvSS.run j
  | "complex" => DrvCC.run j
  | "simple" => DrvSC.run j
  | "perc" => DrvPerc.run j
  | "ode_ic" => DrvIC.run j
  | "rhs" => DrvODE.run j
  | "fastsis" => DrvFS.run j
  | "simple_rates" => DrvSC.rates j
  | "reedfrost" => DrvD.reedfrost j
  | "reedfrostJoint" => DrvD.reedfrostJoint j
  | _ => .error s!"unknown op {op}"

def handle (line : String) : String :=
  match Json.parse line with
  | .ok j =>
    match dispatch j with
    | .ok r => r.compress
    | .error e => (errObj ("driver:" ++ e)).compress
  | .error e => (errObj ("parse:" ++ e)).compress
