import EoNVerif.Proofs.EffDegAgg
/-!
C07 (the ODE models return the same S, I, R curves) — two further reductions:

* the SIR effective-degree model (`_dSIR_effective_degree_`, `EoN/analytic.py` 3970–4022) aggregates onto the compact
  effective-degree model (`_dSIR_compact_effective_degree_`, 4376–4393);
* the loop of `EBCM_pref_mix_discrete` (5535–5607) with uncorrelated mixing reduces to the loop of `EBCM_discrete`
  (4995–5065).

Aggregation map (`Model/EffDegAgg.lean`): `aggSk S κ = Σ_{s+i=κ} S[s,i]`, `aggSI A S = Σ_{s,i} i·S[s,i]`, `R ↦ R`;
`aggEff A S = aggSI A S / Σ_κ κ·aggSk S κ` is `effectiveI` of the compact model at the aggregated state.
-/
namespace ODE

/-! ## effective degree → compact effective degree -/

/-- **Semiconjugacy.**  Let `S[s,i]` (square `A × A` array as the wrappers build it, `S[s,i] = 0` for `s+i ≥ A`)
be a state of `_dSIR_effective_degree_` that satisfies the closure assumption under which the compact model is
derived: every one of the `κ = s+i` live stubs of a susceptible node is infected independently with probability
`effectiveI = [SI]/Σ κ S_κ`, i.e. `S[s,i] = S_{s+i}·C(s+i,i)·eff^i·(1-eff)^s`; and let the only denominator of
`_dSIR_compact_effective_degree_`, `SX = Σ κ S_κ` (line 4381), be non-zero.  Then the derivative returned by
`_dSIR_effective_degree_` (lines 4003–4022), pushed through the aggregation map, is exactly the derivative returned
by `_dSIR_compact_effective_degree_` (lines 4386–4392) at the aggregated state: component by component for
`dSkappa`, for `dR`, and for `dSI`.  (The `ISS_over_SS` quotient of 3980–3983, including its `SS == 0` branch, needs no
extra hypothesis.)  The initial arrays built by `SIR_effective_degree_from_graph` (4323–4328) are of this closed
form: see `effDeg_to_compactED_binomState`. -/
theorem effDeg_to_compactED (A : Nat) (tau gamma N R : Rat) (Ssi : Nat → Nat → Rat)
    (hS : ∀ s i, A ≤ s + i → Ssi s i = 0)
    (hX : sumTo A (fun k => aggSk Ssi k * kf k) ≠ 0)
    (hcl : ∀ s i, s + i < A →
      Ssi s i = aggSk Ssi (s + i) * (Nat.choose (s + i) i : Rat) * aggEff A Ssi ^ i * (1 - aggEff A Ssi) ^ s) :
    let d := sirEffDeg A A tau gamma N Ssi R
    let c := sirCompactED A tau gamma N (aggSk Ssi) R (aggSI A Ssi)
    (∀ κ, κ < A → aggSk d.1 κ = c.1 κ) ∧ d.2 = c.2.1 ∧ aggSI A d.1 = c.2.2 :=
  effDeg_to_compactED_aux A tau gamma N R Ssi hS hX hcl

/-- The hypotheses of `effDeg_to_compactED` hold for every binomial state `binomState A Sk e`
(`S[s,i] = Sk(s+i)·C(s+i,i)·e^i·(1-e)^s`, the shape of the initial condition of
`SIR_effective_degree_from_graph`, 4323–4328, with `e = rho`, `Sk κ = (1-rho)·N_κ`) as soon as `Σ κ·Sk κ ≠ 0`; its
aggregate is `(Sk, R, e·Σ κ Sk κ)`, so the semiconjugacy holds there. -/
theorem effDeg_to_compactED_binomState (A : Nat) (tau gamma N R : Rat) (Sk : Nat → Rat) (e : Rat)
    (hX : sumTo A (fun k => Sk k * kf k) ≠ 0) :
    let S := binomState A Sk e
    let d := sirEffDeg A A tau gamma N S R
    let c := sirCompactED A tau gamma N (aggSk S) R (aggSI A S)
    ((∀ κ, κ < A → aggSk S κ = Sk κ) ∧ aggSI A S = e * sumTo A (fun k => Sk k * kf k) ∧ aggEff A S = e) ∧
    (∀ κ, κ < A → aggSk d.1 κ = c.1 κ) ∧ d.2 = c.2.1 ∧ aggSI A d.1 = c.2.2 :=
  ⟨⟨binomState_aggSk A Sk e, binomState_aggSI A Sk e, binomState_aggEff A Sk e hX⟩,
   effDeg_to_compactED_aux A tau gamma N R (binomState A Sk e) (binomState_support A Sk e)
     (by rw [binomState_Xs]; exact hX) (binomState_hcl A Sk e hX)⟩

/-- **Invariance of the closed states (tangency).**  `h ↦ binomStatePoly A Sk dSk e de s i` is the polynomial
`h ↦ binomState A (Sk + h·dSk) (e + h·de) s i` (`binomStatePoly_eval`).  Take for `dSk` the `dSkappa` returned by
`_dSIR_compact_effective_degree_` (4386–4387) at the aggregate `(Sk, R, [SI] = e·Σ κ Sk κ)` of the closed state, and for
`de` the quotient-rule derivative of `effectiveI = [SI]/Σ κ S_κ` computed from the returned `dSI` (4388–4389) and
`dSkappa`.  Then the derivative returned by `_dSIR_effective_degree_` (4003–4015) at the closed state is, entry by
entry, the `h`-derivative at 0 of that curve of closed states: the effective-degree vector field is tangent to the
family of closed states and moves their parameters exactly as the compact model says.  Together with
`effDeg_to_compactED` (and uniqueness of ODE solutions, not formalised) this is why the two solvers return the same
S, I, R curves from the initial conditions of the `*_from_graph` wrappers. -/
theorem effDeg_closed_invariant (A : Nat) (tau gamma N R : Rat) (Sk : Nat → Rat) (e : Rat)
    (hX : sumTo A (fun k => Sk k * kf k) ≠ 0) :
    let c := sirCompactED A tau gamma N Sk R (e * sumTo A (fun k => Sk k * kf k))
    let de := (c.2.2 - e * sumTo A (fun k => kf k * c.1 k)) / sumTo A (fun k => Sk k * kf k)
    ∀ s i, (sirEffDeg A A tau gamma N (binomState A Sk e) R).1 s i
      = (Polynomial.derivative (binomStatePoly A Sk c.1 e de s i)).eval 0 := by
  intro c de s i
  rw [binomStatePoly_derivative]
  exact effDeg_closed_tangent_aux A tau gamma N R Sk e hX s i

/-- Without any closure assumption (only the support condition): `dR` agrees exactly, because
`Ssi.sum()` (line 4016) is `Skappa.sum()` (line 4379) of the aggregated state. -/
theorem effDeg_to_compactED_dR (A : Nat) (tau gamma N R SI : Rat) (Ssi : Nat → Nat → Rat)
    (hS : ∀ s i, A ≤ s + i → Ssi s i = 0) :
    (sirEffDeg A A tau gamma N Ssi R).2 = (sirCompactED A tau gamma N (aggSk Ssi) R SI).2.1 := by
  dsimp only [sirEffDeg, sirCompactED]
  rw [sum2_eq_sumTo_aggSk A Ssi hS]; ring

/-- Without any closure assumption: the total susceptible count moves identically in both models,
`Σ_{s,i} dS[s,i] = -τ·[SI] = Σ_κ dS_κ`, provided `SX = Σ κ S_κ ≠ 0` (line 4381). -/
theorem effDeg_to_compactED_totalS (A : Nat) (tau gamma N R : Rat) (Ssi : Nat → Nat → Rat)
    (hS : ∀ s i, A ≤ s + i → Ssi s i = 0) (hX : sumTo A (fun k => aggSk Ssi k * kf k) ≠ 0) :
    sum2 A A (sirEffDeg A A tau gamma N Ssi R).1
      = sumTo A (sirCompactED A tau gamma N (aggSk Ssi) R (aggSI A Ssi)).1 := by
  rw [effDeg_total_dS A tau gamma N Ssi R hS, compactED_total_dS A tau gamma N (aggSk Ssi) R (aggSI A Ssi) hX]

/-- Without any closure assumption: the exact equations obeyed by the aggregated variables.  With
`m1 κ = Σ_{s+i=κ} i·S[s,i]`:  `dS_κ = -(τ+γ)·m1 κ + γ·m1 (κ+1)` and
`d[SI] = -τ·Σ i²·S[s,i] - γ·[SI] + τ·ISS_over_SS·[SS]`.  The compact model is what these become when
`m1 κ = eff·κ·S_κ` and the second moments are binomial. -/
theorem effDeg_aggregated_unclosed (A : Nat) (tau gamma N R : Rat) (Ssi : Nat → Nat → Rat)
    (hS : ∀ s i, A ≤ s + i → Ssi s i = 0) :
    (∀ κ, aggSk (sirEffDeg A A tau gamma N Ssi R).1 κ
        = -(tau + gamma) * aggSk (fun s i => kf i * Ssi s i) κ + gamma * aggSk (fun s i => kf i * Ssi s i) (κ + 1)) ∧
    aggSI A (sirEffDeg A A tau gamma N Ssi R).1
      = -tau * sum2 A A (fun s i => kf i * kf i * Ssi s i) - gamma * aggSI A Ssi
        + tau * effR1 A Ssi * sum2 A A (fun s i => kf s * Ssi s i) :=
  ⟨effDeg_agg_dSk A tau gamma N Ssi R hS, effDeg_agg_dSI A tau gamma N Ssi R hS⟩

/-! ### non-vacuity: `A = 3`, `S_κ = (1, 2, 4)`, `e = 1/3`, `τ = 2`, `γ = 1`, `N = 10`, `R = 1` -/

/-- the class sizes of the test instance -/
def exSk : Nat → Rat := fun k => if k = 0 then 1 else if k = 1 then 2 else if k = 2 then 4 else 0

example : sumTo 3 (fun k => exSk k * kf k) ≠ 0 := by decide +kernel

/-- the theorem applies to the instance … -/
example :
    let S := binomState 3 exSk (1 / 3)
    let d := sirEffDeg 3 3 2 1 10 S 1
    let c := sirCompactED 3 2 1 10 (aggSk S) 1 (aggSI 3 S)
    (∀ κ, κ < 3 → aggSk d.1 κ = c.1 κ) ∧ d.2 = c.2.1 ∧ aggSI 3 d.1 = c.2.2 :=
  (effDeg_to_compactED_binomState 3 2 1 10 1 exSk (1 / 3) (by decide +kernel)).2

/-- … on which both sides are non-trivial (values computed by evaluation of the two models) -/
example :
    let S := binomState 3 exSk (1 / 3)
    let d := sirEffDeg 3 3 2 1 10 S 1
    let c := sirCompactED 3 2 1 10 (aggSk S) 1 (aggSI 3 S)
    d.1 0 1 = -2 / 5 ∧ d.1 1 1 = -592 / 135 ∧
    aggSk d.1 0 = 2 / 3 ∧ c.1 0 = 2 / 3 ∧ aggSk d.1 2 = -8 ∧ c.1 2 = -8 ∧
    d.2 = 2 ∧ c.2.1 = 2 ∧ aggSI 3 d.1 = -74 / 9 ∧ c.2.2 = -74 / 9 := by
  decide +kernel

/-- the tangency theorem applies to the instance -/
example :
    let c := sirCompactED 3 2 1 10 exSk 1 (1 / 3 * sumTo 3 (fun k => exSk k * kf k))
    let de := (c.2.2 - 1 / 3 * sumTo 3 (fun k => kf k * c.1 k)) / sumTo 3 (fun k => exSk k * kf k)
    ∀ s i, (sirEffDeg 3 3 2 1 10 (binomState 3 exSk (1 / 3)) 1).1 s i
      = (Polynomial.derivative (binomStatePoly 3 exSk c.1 (1 / 3) de s i)).eval 0 :=
  effDeg_closed_invariant 3 2 1 10 1 exSk (1 / 3) (by decide +kernel)

/-! ## discrete preferential mixing → discrete EBCM -/

/-- **One pass of the loop.**  Run the loop body of `EBCM_pref_mix_discrete` (5587–5601) with uncorrelated mixing
`Pnk[d][d'] = d'·Pk[d']/⟨k⟩` (`⟨k⟩ = Σ d·Pk[d] = psiHP K Pk 1`) from a degree-independent state
(`PMInv … st x`: for every key `d`, `theta[d][-1] = x`, `phiR[d] = (1-p)(1-x)/p`, `phiI[d] = x - φ_S(x) - phiR[d]` with
`φ_S(x) = (1-ρ)ψ'(x)/ψ'(1)`).  Then the new `theta[d][-1]` (all `d`), `S[-1]`, `I[-1]`, `R[-1]` are exactly what one
pass of the loop of `EBCM_discrete` (5050–5059, model `ebcmDiscreteStep`) produces from `(x, I, R)` with
`psihat = (1-ρ)ψ`, `phiS0 = 1-ρ`, `phiR0 = 0`; the new state is again degree-independent (now with the new θ), and
the new `phiS[d]` is `φ_S(θ_new)`.  Key lists: `ks = Pk.keys()` without repetitions, all below `K`, `Pk` zero off `ks`;
`nks d = Pnk[d].keys() ⊆ ks` without repetitions and containing every degree `d'` with `d'·Pk[d'] ≠ 0` (the `d' = 0`
key, where Python evaluates `theta ** -1`, may or may not be present).  Denominators: `p ≠ 0`, `⟨k⟩ ≠ 0`. -/
theorem ebcmDiscrete_prefmix_uncorrelated (ks : List Nat) (hks : ks.Nodup) (K : Nat) (hK : ∀ d ∈ ks, d < K)
    (nks : Nat → List Nat) (hnd : ∀ d ∈ ks, (nks d).Nodup) (hsub : ∀ d ∈ ks, ∀ d' ∈ nks d, d' ∈ ks)
    (N rho p : Rat) (Pk : Nat → Rat) (hP0 : ∀ d, d ∉ ks → Pk d = 0)
    (hfull : ∀ d ∈ ks, ∀ d', d' ∉ nks d → (d' : Rat) * Pk d' = 0)
    (hp : p ≠ 0) (hmean : psiHP K Pk 1 ≠ 0)
    (st : PrefMixDiscState) (x : Rat) (hinv : PMInv ks K Pk rho p st x) :
    let st' := prefMixDiscStep ks nks N rho p Pk (fun _ d' => (d' : Rat) * Pk d' / psiHP K Pk 1) st
    let e := ebcmDiscreteStep K (fun k => (1 - rho) * Pk k) N p (1 - rho) 0 x st.I st.R
    PMInv ks K Pk rho p st' e.1 ∧ st'.S = e.2.1 ∧ st'.I = e.2.2.1 ∧ st'.R = e.2.2.2 ∧
    ∀ d ∈ ks, st'.phiS d = pmPhiS K Pk rho e.1 :=
  ebcmDiscrete_prefmix_step_aux ks hks K hK nks hnd hsub N rho p Pk hP0 hfull st x hinv hp hmean

/-- **Whole runs.**  The state before the loop of `EBCM_pref_mix_discrete` (5579–5586) is degree-independent with
θ = 1, so by induction: with uncorrelated mixing and `Σ Pk = 1`, after any number `n` of passes the lists `S`, `I`,
`R` and every `theta[d]` of `EBCM_pref_mix_discrete(N, Pk, Pnk, p, rho)` coincide with the lists `S`, `I`, `R`, `theta`
of `EBCM_discrete(N, (1-ρ)ψ, (1-ρ)ψ', p, phiS0 = 1-ρ, phiR0 = 0, R0 = 0)`. -/
theorem ebcmDiscrete_prefmix_uncorrelated_run (ks : List Nat) (hks : ks.Nodup) (K : Nat) (hK : ∀ d ∈ ks, d < K)
    (nks : Nat → List Nat) (hnd : ∀ d ∈ ks, (nks d).Nodup) (hsub : ∀ d ∈ ks, ∀ d' ∈ nks d, d' ∈ ks)
    (N rho p : Rat) (Pk : Nat → Rat) (hP0 : ∀ d, d ∉ ks → Pk d = 0)
    (hfull : ∀ d ∈ ks, ∀ d', d' ∉ nks d → (d' : Rat) * Pk d' = 0)
    (hp : p ≠ 0) (hmean : psiHP K Pk 1 ≠ 0) (hsum : psiH K Pk 1 = 1) (n : Nat) :
    let st := prefMixDiscRun ks nks N rho p Pk (fun _ d' => (d' : Rat) * Pk d' / psiHP K Pk 1) n
    let y := ebcmDiscRun K (fun k => (1 - rho) * Pk k) N p (1 - rho) 0 0 n
    (∀ d ∈ ks, st.theta d = y.1) ∧ st.S = y.2.1 ∧ st.I = y.2.2.1 ∧ st.R = y.2.2.2 := by
  have h := ebcmDiscrete_prefmix_run_aux ks hks K hK nks hnd hsub N rho p Pk hP0 hfull hp hmean hsum n
  exact ⟨fun d hd => (h.1 d hd).1, h.2⟩

/-! ### non-vacuity: degrees 1 and 3 with probability 1/2 each, `N = 100`, `ρ = 1/10`, `p = 1/2` -/

/-- the degree distribution of the test instance -/
def exPk : Nat → Rat := fun k => if k = 1 then 1 / 2 else if k = 3 then 1 / 2 else 0

/-- the run theorem applies to the instance (all hypotheses are satisfiable together) … -/
example (n : Nat) :
    let st := prefMixDiscRun [1, 3] (fun _ => [1, 3]) 100 (1 / 10) (1 / 2) exPk
      (fun _ d' => (d' : Rat) * exPk d' / psiHP 4 exPk 1) n
    let y := ebcmDiscRun 4 (fun k => (1 - 1 / 10) * exPk k) 100 (1 / 2) (1 - 1 / 10) 0 0 n
    (∀ d ∈ [1, 3], st.theta d = y.1) ∧ st.S = y.2.1 ∧ st.I = y.2.2.1 ∧ st.R = y.2.2.2 :=
  ebcmDiscrete_prefmix_uncorrelated_run [1, 3] (by decide) 4 (by decide) (fun _ => [1, 3]) (by decide) (by decide)
    100 (1 / 10) (1 / 2) exPk
    (by intro d hd
        have h1 : d ≠ 1 := fun h => hd (by simp [h])
        have h3 : d ≠ 3 := fun h => hd (by simp [h])
        simp [exPk, h1, h3])
    (by intro d _ d' hd'
        have h1 : d' ≠ 1 := fun h => hd' (by simp [h])
        have h3 : d' ≠ 3 := fun h => hd' (by simp [h])
        simp [exPk, h1, h3])
    (by decide +kernel) (by decide +kernel) (by decide +kernel) n

/-- … and the two codes' second loop pass gives these (non-trivial, equal) numbers -/
example :
    let st := prefMixDiscRun [1, 3] (fun _ => [1, 3]) 100 (1 / 10) (1 / 2) exPk
      (fun _ d' => (d' : Rat) * exPk d' / psiHP 4 exPk 1) 2
    let y := ebcmDiscRun 4 (fun k => (1 - 1 / 10) * exPk k) 100 (1 / 2) (1 - 1 / 10) 0 0 2
    st.theta 1 = 29347 / 32000 ∧ st.theta 3 = 29347 / 32000 ∧ y.1 = 29347 / 32000 ∧
    st.R = 29869 / 1600 ∧ y.2.2.2 = 29869 / 1600 ∧ st.S = y.2.1 ∧ st.I = y.2.2.1 := by
  decide +kernel

end ODE
