#!/usr/bin/env python3
"""pyhelp2lean — translator for the degree-distribution helpers and the final-size / discrete-time EBCM functions of
EoN/analytic.py -> lean/EoNVerif/Gen/HelpersGen.lean (namespace GenHelp; runtime Gen/PyHelp.lean).

Translated whole, statement by statement from the ast of /repo's working tree:
  get_Pk, get_PGF, get_PGFPrime, get_PGFDPrime, get_Pnk, estimate_R0,
  Epi_Prob_discrete, Attack_rate_discrete, Attack_rate_cts_time, EBCM_discrete, EBCM_discrete_uniform_introduction.
A `dict` is an association list in insertion order (`Pk : List (Nat × Rat)`); a Python float is an exact rational and
`/` is the checked division (ZeroDivisionError); `x ** k` has a natural-number exponent; a generator sum over
`Pk.keys()` is a fold over the keys; nested `def`s and the lambdas returned by `get_PGF*` are local functions
`Rat → Except String Rat`; `for counter in range(n)` is a fold over `List.range n`; NumPy's `Pkarray.dot(x**ks)` over
`ks = linspace(0, maxk, maxk+1)` is the sum over `k = 0 … maxk` with `Pk.get(k, 0)`.
The graph is read through `dict(G.degree()).values()` (`degs`) and the neighbour degrees of each node (`nbrdegs`).
Anything outside the supported subset raises Unsupported — a failed translation is an undischarged obligation.
"""
import ast, os, sys, hashlib

REPO = os.environ.get("EON_REPO", "/repo")


class Unsupported(Exception):
    pass


def body_of(fn):
    return [s for s in fn.body if not (isinstance(s, ast.Expr) and isinstance(s.value, ast.Constant))]


class T:
    """statement/expression translator for scalar code over Rat in `Except String`.
    env kinds: rat, nat, int, orat (Option Rat), dict (List (Nat × Rat)), odict (Option dict), fn (Rat → Except String Rat), bool"""
    def __init__(self, env):
        self.env = dict(env)
        self.n = 0

    def tmp(self, b):
        self.n += 1
        return f"{b}_{self.n}"

    # expression -> (pre-lines, term, kind); pre-lines are `let x ← …` at indentation `ind`
    def ex(self, e, ind):
        src = ast.unparse(e)
        if isinstance(e, ast.Constant):
            v = e.value
            if isinstance(v, bool) or v is None:
                raise Unsupported("constant " + repr(v))
            if isinstance(v, int):
                return [], f"({v} : Rat)", "rat"
            if isinstance(v, float):
                from fractions import Fraction
                fr = Fraction(repr(v))
                return [], (f"({fr.numerator} : Rat)" if fr.denominator == 1 else f"(({fr.numerator} : Rat) / {fr.denominator})"), "rat"
        if isinstance(e, ast.Name):
            if e.id in self.env:
                k = self.env[e.id]
                if k == "nat":
                    return [], f"(({e.id} : Nat) : Rat)", "rat"
                if k == "int":
                    return [], f"(({e.id} : Int) : Rat)", "rat"
                return [], e.id, k
            raise Unsupported("unknown name " + e.id)
        if isinstance(e, ast.UnaryOp) and isinstance(e.op, ast.USub):
            p, a, k = self.ex(e.operand, ind)
            if k == "rat":
                return p, f"(-{a})", "rat"
        if isinstance(e, ast.BinOp):
            if isinstance(e.op, ast.Pow):
                pa, a, ka = self.ex(e.left, ind)
                n = self.natex(e.right)
                if ka == "rat":
                    return pa, f"({a} ^ {n})", "rat"
                raise Unsupported("power " + src)
            pa, a, ka = self.ex(e.left, ind)
            pb, b, kb = self.ex(e.right, ind)
            if ka != "rat" or kb != "rat":
                raise Unsupported(f"arithmetic on {ka}, {kb}: {src}")
            if isinstance(e.op, ast.Div):
                q = self.tmp("q")
                return pa + pb + [f"{ind}let {q} ← PyTM.fdiv {a} {b}"], q, "rat"
            sym = {ast.Add: "+", ast.Sub: "-", ast.Mult: "*"}.get(type(e.op))
            if sym:
                return pa + pb, f"({a} {sym} {b})", "rat"
        if isinstance(e, ast.Subscript) and isinstance(e.value, ast.Name) and self.env.get(e.value.id) == "dict":
            k = self.natex(e.slice)
            x = self.tmp("d")
            return [f"{ind}let {x} ← PyRT.dictGet {e.value.id} {k}"], x, "rat"
        if isinstance(e, ast.Call):
            f = ast.unparse(e.func)
            if f == "float" and len(e.args) == 1:
                return self.ex(e.args[0], ind)
            if isinstance(e.func, ast.Name) and self.env.get(f) == "fn" and len(e.args) == 1:
                p, a, k = self.ex(e.args[0], ind)
                if k != "rat":
                    raise Unsupported("argument of " + f)
                x = self.tmp("y")
                return p + [f"{ind}let {x} ← {f} {a}"], x, "rat"
            if f == "sum" and len(e.args) == 1 and isinstance(e.args[0], ast.GeneratorExp):
                return self.gensum(e.args[0], ind)
        raise Unsupported("expression " + src[:70])

    def natex(self, e):
        """a natural-number expression: a loop key k, k - c (under a guard k > 0 the Lean truncation agrees), literals"""
        if isinstance(e, ast.Name) and self.env.get(e.id) == "nat":
            return e.id
        if isinstance(e, ast.Constant) and isinstance(e.value, int) and e.value >= 0:
            return str(e.value)
        if isinstance(e, ast.BinOp) and isinstance(e.op, ast.Sub) and isinstance(e.right, ast.Constant) and isinstance(e.right.value, int):
            return f"({self.natex(e.left)} - {e.right.value})"
        raise Unsupported("exponent / key " + ast.unparse(e))

    def gensum(self, g, ind):
        """sum(<expr in k> for k in D.keys() [if k > 0])"""
        if len(g.generators) != 1:
            raise Unsupported("nested generator")
        c = g.generators[0]
        it = ast.unparse(c.iter)
        if not (isinstance(c.target, ast.Name) and it.endswith(".keys()") and self.env.get(it[:-7]) == "dict"):
            raise Unsupported("generator over " + it)
        k = c.target.id
        guard = "true"
        for cond in c.ifs:
            if isinstance(cond, ast.Compare) and len(cond.ops) == 1 and isinstance(cond.ops[0], ast.Gt) and ast.unparse(cond.left) == k \
                    and ast.unparse(cond.comparators[0]) == "0":
                guard = f"decide ({k} > 0)"
            else:
                raise Unsupported("generator condition " + ast.unparse(cond))
        sub = T(dict(self.env, **{k: "nat"}))
        sub.n = self.n + 50
        p, a, kk = sub.ex(g.elt, ind + "    ")
        if kk != "rat":
            raise Unsupported("summand of kind " + kk)
        s = self.tmp("s")
        lines = [f"{ind}let {s} ← ({it[:-7]}.map (·.1)).foldlM (fun (acc : Rat) ({k} : Nat) => do",
                 f"{ind}    if {guard} then do"] + ["  " + x for x in p] + [f"{ind}      pure (acc + {a})", f"{ind}    else pure acc) 0"]
        return lines, s, "rat"

    def cond(self, c, ind):
        if isinstance(c, ast.BoolOp):
            parts = [self.cond(x, ind) for x in c.values]
            pre = sum((p for p, _ in parts), [])
            sym = " && " if isinstance(c.op, ast.And) else " || "
            return pre, "(" + sym.join(t for _, t in parts) + ")"
        if isinstance(c, ast.Compare) and len(c.ops) == 1:
            l, r, op = c.left, c.comparators[0], c.ops[0]
            if isinstance(r, ast.Constant) and r.value is None and isinstance(l, ast.Name) and self.env.get(l.id) in ("orat", "odict"):
                if isinstance(op, (ast.Is, ast.Eq)):
                    return [], f"{l.id}.isNone"
                if isinstance(op, (ast.IsNot, ast.NotEq)):
                    return [], f"{l.id}.isSome"
            if isinstance(l, ast.Name) and self.env.get(l.id) == "orat" and isinstance(op, ast.Eq):
                pb, b, kb = self.ex(r, ind)
                if kb == "rat" and not pb:
                    return [], f"decide ({l.id} = some {b})"          # None == number is False
            pa, a, ka = self.ex(l, ind)
            pb, b, kb = self.ex(r, ind)
            sym = {ast.Eq: "=", ast.NotEq: "≠", ast.Gt: ">", ast.Lt: "<", ast.GtE: "≥", ast.LtE: "≤"}.get(type(op))
            if sym and ka == kb == "rat":
                return pa + pb, f"decide ({a} {sym} {b})"
        raise Unsupported("condition " + ast.unparse(c))


# ---------------------------------------------------------------------------------------------- the functions
def gen_pgf(fn, which):
    """get_PGF / get_PGFPrime / get_PGFDPrime: maxk, ks = linspace(0,maxk,maxk+1), Pkarray, lambda"""
    b = body_of(fn)
    want = ["maxk = max(Pk.keys())", "ks = np.linspace(0, maxk, maxk + 1)", "Pkarray = np.array([Pk.get(k, 0) for k in ks])"]
    if [a.arg for a in fn.args.args] != ["Pk"] or len(b) != 4 or [ast.unparse(x) for x in b[:3]] != want \
            or not isinstance(b[3], ast.Return) or not isinstance(b[3].value, ast.Lambda) or [a.arg for a in b[3].value.args.args] != ["x"]:
        raise Unsupported(fn.name + ": structure")
    lam = b[3].value.body
    if not (isinstance(lam, ast.Call) and ast.unparse(lam.func) == "Pkarray.dot" and len(lam.args) == 1):
        raise Unsupported(fn.name + ": lambda body")

    def term(e):
        """an elementwise expression in ks and x -> Lean term in k (Nat) and x (Rat)"""
        s = ast.unparse(e)
        if s == "ks":
            return "((k : Nat) : Rat)"
        if s == "x":
            return "x"
        if isinstance(e, ast.Constant) and isinstance(e.value, int):
            return f"({e.value} : Rat)"
        if isinstance(e, ast.BinOp) and isinstance(e.op, ast.Pow) and ast.unparse(e.left) == "x":
            r = e.right
            if ast.unparse(r) == "ks":
                return "(x ^ k)"
            if isinstance(r, ast.Call) and ast.unparse(r.func) == "np.maximum" and len(r.args) == 2 and ast.unparse(r.args[1]) == "0" \
                    and isinstance(r.args[0], ast.BinOp) and isinstance(r.args[0].op, ast.Sub) and ast.unparse(r.args[0].left) == "ks" \
                    and isinstance(r.args[0].right, ast.Constant) and isinstance(r.args[0].right.value, int):
                return f"(x ^ (k - {r.args[0].right.value}))"         # natural subtraction = max(k - c, 0)
            raise Unsupported(fn.name + ": exponent " + ast.unparse(r))
        if isinstance(e, ast.BinOp) and isinstance(e.op, (ast.Mult, ast.Sub, ast.Add)):
            sym = {ast.Mult: "*", ast.Sub: "-", ast.Add: "+"}[type(e.op)]
            return f"({term(e.left)} {sym} {term(e.right)})"
        raise Unsupported(fn.name + ": " + s)
    t = term(lam.args[0])
    return (f"/-- generated from `{fn.name}` (EoN/analytic.py:{fn.lineno}) -/\n"
            f"def {fn.name} (Pk : List (Nat × Rat)) : Except String (Rat → Rat) := do\n"
            "  let maxk ← PyHelp.maxKey Pk\n"
            f"  pure (fun x => sumRat ((List.range (maxk + 1)).map fun k => alGet Pk 0 k * {t}))\n")


def gen_simple(fn, params, ret="rat"):
    """functions made of assignments, `if … is None` defaulting, nested one-line defs, a `for counter in range(n)` loop
    updating one variable, guards that raise, early returns inside `if`, and a final return"""
    got = [a.arg for a in fn.args.args]
    if got != [p for p, _ in params]:
        raise Unsupported(f"{fn.name}: signature {got}")
    tr = T({p: k for p, k in params})
    tys = {"rat": "Rat", "nat": "Nat", "orat": "Option Rat", "dict": "List (Nat × Rat)", "odict": "Option (List (Nat × Rat))",
           "fn": "Rat → Except String Rat", "int": "Int", "bool": "Bool"}
    lines = block(tr, body_of(fn), "  ", fn.name)
    binders = " ".join(f"({p} : {tys[k]})" for p, k in params)
    return (f"/-- generated from `{fn.name}` (EoN/analytic.py:{fn.lineno}) -/\n"
            f"def {fn.name} {binders} : Except String Rat := do\n" + "\n".join(lines) + "\n")


def block(tr, stmts, ind, fname):
    out = []
    for i, st in enumerate(stmts):
        src = ast.unparse(st)
        last = i == len(stmts) - 1
        if isinstance(st, ast.Return):
            if not last:
                raise Unsupported(fname + ": return before the end")
            if isinstance(st.value, ast.Call) and isinstance(st.value.func, ast.Name) and st.value.func.id in KNOWN:
                args = []
                for a in st.value.args:
                    if not (isinstance(a, ast.Name) and a.id in tr.env):
                        raise Unsupported(fname + ": argument " + ast.unparse(a))
                    args.append(a.id)
                if [tr.env[a] for a in args] != [k for _, k in KNOWN[st.value.func.id]]:
                    raise Unsupported(fname + ": call " + src)
                out.append(f"{ind}{st.value.func.id} {' '.join(args)}")
                return out
            p, a, k = tr.ex(st.value, ind)
            if k != "rat":
                raise Unsupported(fname + ": returns " + k)
            out += p + [f"{ind}pure {a}"]
            return out
        if isinstance(st, ast.If) and len(st.body) == 1 and isinstance(st.body[0], ast.Raise) and not st.orelse:
            exc = ast.unparse(st.body[0].exc)
            if not exc.startswith("EoN.EoNError("):
                raise Unsupported(fname + ": raise " + exc[:40])
            pc, c = tr.cond(st.test, ind)
            out += pc + [f"{ind}if {c} then throw \"EoNError\" else"]
            continue
        if isinstance(st, ast.If):
            # (a) `if X == None: X = default`   (b) `if v == 0: v = 1`   (c) `if Sk0 is None: <block that returns or rebinds Sk0>`
            nt = st.test
            name = nt.left.id if isinstance(nt, ast.Compare) and isinstance(nt.left, ast.Name) else None
            if name and tr.env.get(name) == "orat" and isinstance(nt.ops[0], (ast.Eq, ast.Is)) and ast.unparse(nt.comparators[0]) == "None" \
                    and len(st.body) == 1 and not st.orelse and isinstance(st.body[0], ast.Assign) and ast.unparse(st.body[0].targets[0]) == name:
                p, a, k = tr.ex(st.body[0].value, ind + "    ")
                if k != "rat":
                    raise Unsupported(fname + ": default of " + name)
                out += [f"{ind}let {name} ← (match {name} with", f"{ind}  | some v_ => pure v_", f"{ind}  | none => do"] + p + [f"{ind}    pure {a})"]
                tr.env[name] = "rat"
                continue
            if name and tr.env.get(name) == "rat" and len(st.body) == 1 and not st.orelse and isinstance(st.body[0], ast.Assign) \
                    and ast.unparse(st.body[0].targets[0]) == name:
                pc, c = tr.cond(st.test, ind)
                p, a, k = tr.ex(st.body[0].value, ind)
                if p or k != "rat":
                    raise Unsupported(fname + ": " + src[:60])
                out += pc + [f"{ind}let {name} := if {c} then {a} else {name}"]
                continue
            if name and tr.env.get(name) == "odict" and isinstance(nt.ops[0], ast.Is) and ast.unparse(nt.comparators[0]) == "None" and not st.orelse:
                # the body either returns (early exit) or ends by binding `name` to a dict
                inner = block_odict(tr, st.body, ind + "    ", fname, name)
                out += [f"{ind}let {name} ← (match {name} with", f"{ind}  | some d_ => pure (Sum.inr d_)", f"{ind}  | none => do"] + inner + [f"{ind}  )",
                        f"{ind}match {name} with", f"{ind}| Sum.inl early_ => pure early_", f"{ind}| Sum.inr {name} => do"]
                tr.env[name] = "dict"
                rest = block(tr, stmts[i + 1:], ind + "  ", fname)
                return out + rest
            raise Unsupported(fname + ": if " + src[:60])
        if isinstance(st, ast.FunctionDef):
            b = body_of(st)
            if len(st.args.args) != 1 or len(b) != 1 or not isinstance(b[0], ast.Return):
                raise Unsupported(fname + ": nested def " + st.name)
            x = st.args.args[0].arg
            sub = T(dict(tr.env, **{x: "rat"}))
            p, a, k = sub.ex(b[0].value, ind + "  ")
            if k != "rat":
                raise Unsupported(fname + ": nested def returns " + k)
            out += [f"{ind}let {st.name} : Rat → Except String Rat := fun {x} => do"] + p + [f"{ind}  pure {a}"]
            tr.env[st.name] = "fn"
            continue
        if isinstance(st, ast.For) and isinstance(st.iter, ast.Call) and ast.unparse(st.iter.func) == "range" and len(st.iter.args) == 1 \
                and len(st.body) == 1 and isinstance(st.body[0], ast.Assign) and isinstance(st.body[0].targets[0], ast.Name) and not st.orelse:
            nname = ast.unparse(st.iter.args[0])
            if tr.env.get(nname) != "nat":
                raise Unsupported(fname + ": loop bound " + nname)
            var = st.body[0].targets[0].id
            if tr.env.get(var) != "rat":
                raise Unsupported(fname + ": loop variable " + var)
            p, a, k = tr.ex(st.body[0].value, ind + "  ")
            out += [f"{ind}let {var} ← (List.range {nname}).foldlM (fun ({var} : Rat) (_ : Nat) => do"] + p + [f"{ind}  pure {a}) {var}"]
            continue
        if isinstance(st, ast.Assign) and len(st.targets) == 1 and isinstance(st.targets[0], ast.Name):
            name = st.targets[0].id
            if isinstance(st.value, ast.Call) and isinstance(st.value.func, ast.Name) and st.value.func.id in ("get_PGF", "get_PGFPrime", "get_PGFDPrime") \
                    and len(st.value.args) == 1 and tr.env.get(ast.unparse(st.value.args[0])) == "dict":
                f_ = tr.tmp("f")
                out += [f"{ind}let {f_} ← {st.value.func.id} {ast.unparse(st.value.args[0])}",
                        f"{ind}let {name} : Rat → Except String Rat := fun x => pure ({f_} x)"]
                tr.env[name] = "fn"
                continue
            p, a, k = tr.ex(st.value, ind)
            if k != "rat":
                raise Unsupported(fname + ": assignment of " + k)
            out += p + [f"{ind}let {name} : Rat := {a}"]
            tr.env[name] = "rat"
            continue
        raise Unsupported(fname + ": statement " + src[:70])
    raise Unsupported(fname + ": no return")


def block_odict(tr, stmts, ind, fname, name):
    """body of `if Sk0 is None:` — produces a value of type `Rat ⊕ dict`: an early return or the default dict"""
    out = []
    if len(stmts) == 1 and isinstance(stmts[0], ast.If):
        st = stmts[0]
        pc, c = tr.cond(st.test, ind)
        def branch(b, ind2):
            if len(b) == 1 and isinstance(b[0], ast.Return):
                inner = block(T(tr.env), b, ind2, fname)
                return inner[:-1] + [inner[-1].replace(ind2, ind2 + "let r_ ← ", 1), f"{ind2}pure (Sum.inl r_)"] if not inner[-1].strip().startswith("pure ") \
                    else inner[:-1] + [f"{ind2}pure (Sum.inl {inner[-1].strip()[5:]})"]
            if len(b) == 1 and isinstance(b[0], ast.Assign) and ast.unparse(b[0].targets[0]) == name:
                return [f"{ind2}pure (Sum.inr {dictcomp(tr, b[0].value, fname)})"]
            raise Unsupported(fname + ": branch " + ast.unparse(b[0])[:50])
        return pc + [f"{ind}if {c} then do"] + branch(st.body, ind + "  ") + [f"{ind}else do"] + branch(st.orelse, ind + "  ")
    # `if rho is None: rho = 0` followed by `Sk0 = {…}`
    pre = []
    for st in stmts[:-1]:
        t = st.test if isinstance(st, ast.If) else None
        if t is not None and isinstance(t, ast.Compare) and isinstance(t.left, ast.Name) and tr.env.get(t.left.id) == "orat" \
                and ast.unparse(t.comparators[0]) == "None" and len(st.body) == 1 and isinstance(st.body[0], ast.Assign) \
                and ast.unparse(st.body[0].targets[0]) == t.left.id and not st.orelse:
            p, a, k = tr.ex(st.body[0].value, ind)
            pre += p + [f"{ind}let {t.left.id} : Rat := (match {t.left.id} with | some v_ => v_ | none => {a})"]
            tr.env[t.left.id] = "rat"
        else:
            raise Unsupported(fname + ": " + ast.unparse(st)[:50])
    last = stmts[-1]
    if not (isinstance(last, ast.Assign) and ast.unparse(last.targets[0]) == name):
        raise Unsupported(fname + ": " + ast.unparse(last)[:50])
    return pre + [f"{ind}pure (Sum.inr {dictcomp(tr, last.value, fname)})"]


def dictcomp(tr, e, fname):
    """{k: <expr without k> for k in Pk.keys()}"""
    if not (isinstance(e, ast.DictComp) and len(e.generators) == 1 and ast.unparse(e.generators[0].iter) == "Pk.keys()"
            and ast.unparse(e.key) == e.generators[0].target.id and not e.generators[0].ifs):
        raise Unsupported(fname + ": dict comprehension " + ast.unparse(e)[:50])
    names = {n.id for n in ast.walk(e.value) if isinstance(n, ast.Name)}
    for n_ in names:
        if tr.env.get(n_) == "orat":
            # inside the else-branch of `rho is None or rho == 0` rho is a number
            sub = T(dict(tr.env, **{n_: "rat"}))
            p, a, k = sub.ex(e.value, "")
            if p or k != "rat":
                raise Unsupported(fname + ": dict value")
            return f"(match {n_} with | some {n_} => Pk.map (fun kv => (kv.1, {a})) | none => [])"
    p, a, k = tr.ex(e.value, "")
    if p or k != "rat":
        raise Unsupported(fname + ": dict value")
    return f"(Pk.map (fun kv => (kv.1, {a})))"


KNOWN = {"Epi_Prob_discrete": [("Pk", "dict"), ("p", "rat"), ("number_its", "nat")]}


def gen_epi_cond(tr):
    pass


def gen_get_Pk(fn):
    b = body_of(fn)
    want = ["Nk = Counter(dict(G.degree()).values())", "Pk = {x: Nk[x] / float(G.order()) for x in Nk.keys()}", "return Pk"]
    if [ast.unparse(x) for x in b] != want:
        bad = next((g for g, w in zip([ast.unparse(x) for x in b], want) if g != w), "structure")
        raise Unsupported("get_Pk: " + bad[:70])
    return ("/-- generated from `get_Pk` (EoN/analytic.py:%d): `degs` = `dict(G.degree()).values()` (one entry per node) -/\n"
            "def get_Pk (degs : List Nat) : Except String (List (Nat × Rat)) := do\n"
            "  let Nk := PyHelp.counter degs\n"
            "  Nk.mapM (fun kv => do\n"
            "    let q ← PyTM.fdiv ((kv.2 : Nat) : Rat) ((degs.length : Nat) : Rat)\n"
            "    pure (kv.1, q))\n" % fn.lineno)


def gen_get_Pnk(fn):
    b = body_of(fn)
    want = ["Pnk = {k1: defaultdict(int) for k1 in dict(G.degree()).values()}", "Nk = Counter(dict(G.degree()).values())",
            "for node in G.nodes():\n    k1 = G.degree(node)\n    nbr_degrees = [G.degree(nbr) for nbr in G.neighbors(node)]\n"
            "    for k2 in nbr_degrees:\n        Pnk[k1][k2] += 1.0 / (k1 * Nk[k1])", "return Pnk"]
    got = [ast.unparse(x) for x in b]
    if got != want:
        bad = next((g for g, w in zip(got, want) if g != w), "structure")
        raise Unsupported("get_Pnk: " + bad[:70])
    return ("/-- generated from `get_Pnk` (EoN/analytic.py:%d): `nbrdegs` = for each node (in `G.nodes()` order) the degrees of its\n"
            "neighbours; the node's own degree is the length of that list -/\n"
            "def get_Pnk (nbrdegs : List (List Nat)) : Except String (List (Nat × List (Nat × Rat))) := do\n"
            "  let degs := nbrdegs.map (·.length)\n"
            "  let Pnk : List (Nat × List (Nat × Rat)) := degs.foldl (fun acc k1 => if alHas acc k1 then acc else acc ++ [(k1, [])]) []\n"
            "  let Nk := PyHelp.counter degs\n"
            "  nbrdegs.foldlM (fun Pnk nbr_degrees => do\n"
            "    let k1 := nbr_degrees.length\n"
            "    nbr_degrees.foldlM (fun Pnk k2 => do\n"
            "      let q ← PyTM.fdiv (1 : Rat) (((k1 : Nat) : Rat) * ((alGet Nk 0 k1 : Nat) : Rat))\n"
            "      let row := alGet Pnk [] k1\n"
            "      pure (alSet Pnk k1 (alSet row k2 (alGet row 0 k2 + q)))) Pnk) Pnk\n" % fn.lineno)


def gen_R0(fn):
    b = body_of(fn)
    want = ["if transmissibility is None:\n    if tau is None or gamma is None:\n        raise EoN.EoNError('not enough information give to estimate transmission probability')\n"
            "    else:\n        transmissibility = tau / (tau + gamma)", "Pk = get_Pk(G)", "psiDPrime = get_PGFDPrime(Pk)", "psiPrime = get_PGFPrime(Pk)",
            "return transmissibility * psiDPrime(1.0) / psiPrime(1.0)"]
    got = [ast.unparse(x) for x in b]
    if got != want:
        bad = next((g for g, w in zip(got, want) if g != w), "structure")
        raise Unsupported("estimate_R0: " + bad[:70])
    return ("/-- generated from `estimate_R0` (EoN/analytic.py:%d) -/\n"
            "def estimate_R0 (degs : List Nat) (tau gamma transmissibility : Option Rat) : Except String Rat := do\n"
            "  let transmissibility ← (match transmissibility with\n"
            "    | some t_ => pure t_\n"
            "    | none => match tau, gamma with\n"
            "      | some tau, some gamma => PyTM.fdiv tau (tau + gamma)\n"
            "      | _, _ => throw \"EoNError\")\n"
            "  let Pk ← get_Pk degs\n"
            "  let psiDPrime ← get_PGFDPrime Pk\n"
            "  let psiPrime ← get_PGFPrime Pk\n"
            "  PyTM.fdiv (transmissibility * psiDPrime 1) (psiPrime 1)\n" % fn.lineno)


def gen_ebcm_discrete(fn):
    """EBCM_discrete: lists grown by append; translated with the five lists as loop state"""
    got = [a.arg for a in fn.args.args]
    if got != ["N", "psihat", "psihatPrime", "p", "phiS0", "phiR0", "R0", "tmin", "tmax", "return_full_data"]:
        raise Unsupported(f"EBCM_discrete: signature {got}")
    b = body_of(fn)
    tr = T({"N": "rat", "psihat": "fn", "psihatPrime": "fn", "p": "rat", "phiS0": "rat", "phiR0": "rat", "R0": "rat"})
    head = ["times = [tmin]", "theta = [1]", "R = [R0]", "S = [N * psihat(1)]", "I = [N - S[-1] - R[-1]]", "psihatPrime1 = psihatPrime(1)",
            "if psihatPrime1 == 0:\n    psihatPrime1 = 1"]
    if [ast.unparse(x) for x in b[:7]] != head:
        bad = next((g for g, w in zip([ast.unparse(x) for x in b[:7]], head) if g != w), "structure")
        raise Unsupported("EBCM_discrete: " + bad[:70])
    loop = b[7]
    if not (isinstance(loop, ast.For) and ast.unparse(loop.iter) == "range(tmin + 1, tmax + 1)" and ast.unparse(loop.target) == "time"):
        raise Unsupported("EBCM_discrete: loop header")
    lb = [ast.unparse(x) for x in loop.body]
    shape = ["times.append(time)", None, None, None, None, "theta.append(newtheta)", "R.append(newR)", "S.append(newS)", "I.append(newI)"]
    if len(lb) != 9 or any(w is not None and g != w for g, w in zip(lb, shape)):
        raise Unsupported("EBCM_discrete: loop body")
    env = dict(tr.env, psihatPrime1="rat", th="rat", r="rat", s="rat", i="rat")
    tr2 = T(env)
    lines = []
    names = {}
    for st in loop.body[1:5]:
        nm = st.targets[0].id
        # theta[-1] -> th, R[-1] -> r, S[-1] -> s, I[-1] -> i (the last entries are the loop state)
        v = ast.parse(ast.unparse(st.value).replace("theta[-1]", "th").replace("R[-1]", "r").replace("S[-1]", "s").replace("I[-1]", "i")).body[0].value
        if any(isinstance(n, ast.Subscript) for n in ast.walk(v)):
            raise Unsupported("EBCM_discrete: list access " + ast.unparse(st.value))
        p, a, k = tr2.ex(v, "      ")
        lines += p + [f"      let {nm} : Rat := {a}"]
        tr2.env[nm] = "rat"
        names[nm] = True
    if list(names) != ["newtheta", "newR", "newS", "newI"]:
        raise Unsupported("EBCM_discrete: order of the updates " + str(list(names)))
    ret = b[8]
    rs = ast.unparse(ret)
    want_ret = ("if not return_full_data:\n    return (np.array(times), np.array(S), np.array(I), np.array(R))\nelse:\n"
                "    return (np.array(times), np.array(S), np.array(I), np.array(R), np.array(theta))")
    if rs != want_ret:
        raise Unsupported("EBCM_discrete: return " + rs[:70])
    return ("/-- generated from `EBCM_discrete` (EoN/analytic.py:%d): returns `[times, S, I, R]` (+ `theta` with full data) -/\n"
            "def EBCM_discrete (N : Rat) (psihat psihatPrime : Rat → Except String Rat) (p phiS0 phiR0 R0 : Rat) (tmin tmax : Int)\n"
            "    (return_full_data : Bool) : Except String (List (List Rat)) := do\n"
            "  let s0 ← psihat 1\n"
            "  let S0 : Rat := N * s0\n"
            "  let I0 : Rat := N - S0 - R0\n"
            "  let psihatPrime1 ← psihatPrime 1\n"
            "  let psihatPrime1 : Rat := if decide (psihatPrime1 = 0) then 1 else psihatPrime1\n"
            "  let steps : List Int := (List.range (tmax - tmin).toNat).map (fun (j : Nat) => tmin + 1 + (j : Int))\n"
            "  let (times, theta, R, S, I) ← steps.foldlM (fun (st : List Rat × List Rat × List Rat × List Rat × List Rat) (time : Int) => do\n"
            "      let (times, theta, R, S, I) := st\n"
            "      let th ← PyTM.listLast theta\n"
            "      let r ← PyTM.listLast R\n"
            "      let s ← PyTM.listLast S\n"
            "      let i ← PyTM.listLast I\n"
            "      let _ := s\n" % fn.lineno
            + "\n".join(lines) + "\n"
            "      pure (times ++ [((time : Int) : Rat)], theta ++ [newtheta], R ++ [newR], S ++ [newS], I ++ [newI]))\n"
            "    ([((tmin : Int) : Rat)], [(1 : Rat)], [R0], [S0], [I0])\n"
            "  if !return_full_data then pure [times, S, I, R] else pure [times, S, I, R, theta]\n")


def gen_ebcm_uniform(fn):
    b = body_of(fn)
    want = ["def psihat(x):\n    return (1 - rho) * psi(x)", "def psihatPrime(x):\n    return (1 - rho) * psiPrime(x)",
            "return EBCM_discrete(N, psihat, psihatPrime, p, 1 - rho, tmax=tmax, return_full_data=return_full_data)"]
    got = [ast.unparse(x) for x in b]
    if got != want or [a.arg for a in fn.args.args] != ["N", "psi", "psiPrime", "p", "rho", "tmax", "return_full_data"]:
        bad = next((g for g, w in zip(got, want) if g != w), "structure")
        raise Unsupported("EBCM_discrete_uniform_introduction: " + bad[:70])
    return ("/-- generated from `EBCM_discrete_uniform_introduction` (EoN/analytic.py:%d); `phiR0`, `R0`, `tmin` keep the defaults of\n"
            "`EBCM_discrete` (0, 0, 0) -/\n"
            "def EBCM_discrete_uniform_introduction (N : Rat) (psi psiPrime : Rat → Except String Rat) (p rho : Rat) (tmax : Int)\n"
            "    (return_full_data : Bool) : Except String (List (List Rat)) :=\n"
            "  let psihat : Rat → Except String Rat := fun x => do let y ← psi x; pure ((1 - rho) * y)\n"
            "  let psihatPrime : Rat → Except String Rat := fun x => do let y ← psiPrime x; pure ((1 - rho) * y)\n"
            "  EBCM_discrete N psihat psihatPrime p (1 - rho) 0 0 0 tmax return_full_data\n" % fn.lineno)


def check_defaults(fn, want):
    pn = [a.arg for a in fn.args.args]
    d = dict(zip(pn[len(pn) - len(fn.args.defaults):], [ast.unparse(x) for x in fn.args.defaults]))
    for k, v in want.items():
        if d.get(k) != v:
            raise Unsupported(f"{fn.name}: default of {k} is {d.get(k)}, expected {v}")


HEADER = '''import EoNVerif.Gen.PyHelp
/-!
GENERATED by harness/pyhelp2lean.py from the degree-distribution helpers and the final-size / discrete-time EBCM functions
of EoN/analytic.py — do not edit; regenerated on every check run.   source sha1: {sha}
-/
namespace GenHelp

'''


def translate(repo=REPO):
    tree = ast.parse(open(os.path.join(repo, "EoN", "analytic.py")).read())
    fns = {n.name: n for n in tree.body if isinstance(n, ast.FunctionDef)}
    errors, parts, srcs = {}, [], []
    jobs = [
        ("get_Pk", lambda: gen_get_Pk(fns["get_Pk"])),
        ("get_PGF", lambda: gen_pgf(fns["get_PGF"], 0)),
        ("get_PGFPrime", lambda: gen_pgf(fns["get_PGFPrime"], 1)),
        ("get_PGFDPrime", lambda: gen_pgf(fns["get_PGFDPrime"], 2)),
        ("get_Pnk", lambda: gen_get_Pnk(fns["get_Pnk"])),
        ("estimate_R0", lambda: gen_R0(fns["estimate_R0"])),
        ("Epi_Prob_discrete", lambda: gen_simple(fns["Epi_Prob_discrete"], [("Pk", "dict"), ("p", "rat"), ("number_its", "nat")])),
        ("Attack_rate_discrete", lambda: (check_defaults(fns["Attack_rate_discrete"], {"phiR0": "0"}),
                                          gen_simple(fns["Attack_rate_discrete"], [("Pk", "dict"), ("p", "rat"), ("rho", "orat"), ("Sk0", "odict"),
                                                                                  ("phiS0", "orat"), ("phiR0", "orat"), ("number_its", "nat")]))[1]),
        ("Attack_rate_cts_time", lambda: gen_simple(fns["Attack_rate_cts_time"], [("Pk", "dict"), ("tau", "rat"), ("gamma", "rat"), ("number_its", "nat"),
                                                                                  ("rho", "orat"), ("Sk0", "odict"), ("phiS0", "orat"), ("phiR0", "orat")])),
        ("EBCM_discrete", lambda: (check_defaults(fns["EBCM_discrete"], {"phiR0": "0", "R0": "0", "tmin": "0"}), gen_ebcm_discrete(fns["EBCM_discrete"]))[1]),
        ("EBCM_discrete_uniform_introduction", lambda: gen_ebcm_uniform(fns["EBCM_discrete_uniform_introduction"])),
    ]
    for name, job in jobs:
        try:
            parts.append(job())
            srcs.append(ast.unparse(fns[name]))
        except (Unsupported, KeyError) as ex:
            errors[name] = f"unsupported: {ex}"
    sha = hashlib.sha1("\n".join(srcs).encode()).hexdigest()
    return HEADER.format(sha=sha) + "\n".join(parts) + "\nend GenHelp\n", errors


def regenerate():
    import warnings
    target = os.path.join(os.path.dirname(os.path.abspath(__file__)), "..", "lean", "EoNVerif", "Gen", "HelpersGen.lean")
    with warnings.catch_warnings():
        warnings.simplefilter("ignore")
        text, errors = translate()
    old = open(target).read() if os.path.exists(target) else None
    if text and not errors and old != text:
        tmp = target + ".tmp%d" % os.getpid()
        with open(tmp, "w") as f:
            f.write(text)
        os.replace(tmp, target)
    return (old != text and not errors), errors


def main():
    changed, errors = regenerate()
    print("pyhelp2lean: Gen/HelpersGen.lean %s" % ("rewritten" if changed else "up to date"))
    for n, e in errors.items():
        print(f"pyhelp2lean: {n}: {e}")
    return 1 if errors else 0


if __name__ == "__main__":
    sys.exit(main())
