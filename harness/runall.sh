#!/bin/bash
# run every registered quick (or thorough) check in parallel; prints one summary line per check
tier=${1:-quick}
cd "$(dirname "$0")/.."
ids=$(python3 -c "import json;print(' '.join(c['property_id'] for c in json.load(open('MANIFEST.json'))['checks']))")
( cd lean && lake build EoNVerif driver EoNVerif.Props >/tmp/runall_build.log 2>&1 ) || { echo "SETUP BUILD FAILED"; grep -E "error" /tmp/runall_build.log | head -5; }
for p in $ids; do
  ( /venv/bin/python harness/check.py $p --tier $tier > /tmp/runall_$p.log 2>&1; echo "$p exit=$? $(tail -1 /tmp/runall_$p.log)" ) &
done
wait
