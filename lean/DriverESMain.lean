import DriverES
partial def loopES (h : IO.FS.Stream) (out : IO.FS.Stream) : IO Unit := do
  let line ← h.getLine
  if line.isEmpty then return ()
  out.putStrLn (DrvGenES.handle line)
  loopES h out
def main : IO Unit := do loopES (← IO.getStdin) (← IO.getStdout)
